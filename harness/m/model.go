// Package m holds the harness's own, JSON-serialisable representation of
// authorization models, tuples and requests. Everything a property check
// consumes is built from these values so that a failing case can be dumped to
// a replay file and re-run without the generator. The reference semantics
// (package refsem) works on these types only and never on repository code.
package m

import (
	"fmt"
	"sort"
	"strings"
)

// Rewrite kinds.
const (
	This         = "this"
	Computed     = "computed"
	TTU          = "ttu"
	Union        = "union"
	Intersection = "intersection"
	Difference   = "difference"
)

// Rewrite is a userset rewrite node.
type Rewrite struct {
	Kind     string     `json:"k"`
	Rel      string     `json:"rel,omitempty"`      // computed relation (computed, ttu)
	Tupleset string     `json:"tupleset,omitempty"` // ttu
	Children []*Rewrite `json:"ch,omitempty"`       // union/intersection: n children; difference: [base, subtract]
}

// Restriction is one directly-related user type of a relation.
type Restriction struct {
	Type     string `json:"type"`
	Rel      string `json:"rel,omitempty"`
	Wildcard bool   `json:"wildcard,omitempty"`
	Cond     string `json:"cond,omitempty"`
}

// Kind returns "object", "wildcard" or "userset".
func (r Restriction) Kind() string {
	switch {
	case r.Wildcard:
		return "wildcard"
	case r.Rel != "":
		return "userset"
	}
	return "object"
}

func (r Restriction) String() string {
	s := r.Type
	if r.Wildcard {
		s += ":*"
	} else if r.Rel != "" {
		s += "#" + r.Rel
	}
	if r.Cond != "" {
		s += " with " + r.Cond
	}
	return s
}

// Relation is a relation definition.
type Relation struct {
	Name    string        `json:"name"`
	Rewrite *Rewrite      `json:"rw"`
	Restr   []Restriction `json:"restr,omitempty"`
}

// TypeDef is a type definition.
type TypeDef struct {
	Name      string     `json:"name"`
	Relations []Relation `json:"relations,omitempty"`
}

// Param is a condition parameter. Type is one of the openfga type names in
// lower case: bool,string,int,uint,double,duration,timestamp,ipaddress,any,
// list<T>, map<T>.
type Param struct {
	Name string `json:"name"`
	Type string `json:"type"`
}

// Condition is a condition definition. Expr is an expression tree the
// reference evaluator understands and that renders to CEL source.
type Condition struct {
	Name   string  `json:"name"`
	Params []Param `json:"params"`
	Expr   *Expr   `json:"expr"`
}

// Model is an authorization model (schema 1.1).
type Model struct {
	Types []TypeDef   `json:"types"`
	Conds []Condition `json:"conds,omitempty"`
	// SparseMeta: submit the model the way hand-written API clients do, without a
	// metadata entry for relations that have no direct type restrictions.
	SparseMeta bool `json:"sparse_meta,omitempty"`
}

// Tuple is a relationship tuple, optionally conditioned.
type Tuple struct {
	Object   string         `json:"object"`
	Relation string         `json:"relation"`
	User     string         `json:"user"`
	Cond     string         `json:"cond,omitempty"`
	Ctx      map[string]any `json:"ctx,omitempty"`
}

func (t Tuple) Key() string { return t.Object + "#" + t.Relation + "@" + t.User }

func (t Tuple) String() string {
	s := t.Key()
	if t.Cond != "" {
		s += fmt.Sprintf(" with %s%v", t.Cond, t.Ctx)
	}
	return s
}

// Request is a Check-shaped request.
type Request struct {
	Object     string         `json:"object"`
	Relation   string         `json:"relation"`
	User       string         `json:"user"`
	Ctx        map[string]any `json:"ctx,omitempty"`
	Contextual []Tuple        `json:"contextual,omitempty"`
}

func (r Request) String() string {
	return fmt.Sprintf("%s#%s@%s ctx=%v contextual=%v", r.Object, r.Relation, r.User, r.Ctx, r.Contextual)
}

// ---- lookups ----

func (mo *Model) Type(name string) *TypeDef {
	for i := range mo.Types {
		if mo.Types[i].Name == name {
			return &mo.Types[i]
		}
	}
	return nil
}

func (mo *Model) Relation(typ, rel string) *Relation {
	td := mo.Type(typ)
	if td == nil {
		return nil
	}
	for i := range td.Relations {
		if td.Relations[i].Name == rel {
			return &td.Relations[i]
		}
	}
	return nil
}

func (mo *Model) Cond(name string) *Condition {
	for i := range mo.Conds {
		if mo.Conds[i].Name == name {
			return &mo.Conds[i]
		}
	}
	return nil
}

// Walk calls f on every node of the rewrite (pre-order).
func (rw *Rewrite) Walk(f func(*Rewrite)) {
	if rw == nil {
		return
	}
	f(rw)
	for _, c := range rw.Children {
		c.Walk(f)
	}
}

// HasThis reports whether the rewrite contains a direct-assignment leaf.
func (rw *Rewrite) HasThis() bool {
	found := false
	rw.Walk(func(n *Rewrite) {
		if n.Kind == This {
			found = true
		}
	})
	return found
}

// IsTupleset reports whether typ#rel is used as a tupleset of a TTU on typ.
func (mo *Model) IsTupleset(typ, rel string) bool {
	td := mo.Type(typ)
	if td == nil {
		return false
	}
	is := false
	for _, r := range td.Relations {
		r.Rewrite.Walk(func(n *Rewrite) {
			if n.Kind == TTU && n.Tupleset == rel {
				is = true
			}
		})
	}
	return is
}

// ---- string helpers (deliberately independent of pkg/tuple) ----

// SplitObject splits "type:id" at the first ':'.
func SplitObject(o string) (typ, id string) {
	i := strings.IndexByte(o, ':')
	if i < 0 {
		return "", o
	}
	return o[:i], o[i+1:]
}

// SplitUser splits a user string into object part and relation ("" if none).
func SplitUser(u string) (obj, rel string) {
	i := strings.LastIndexByte(u, '#')
	if i < 0 {
		return u, ""
	}
	return u[:i], u[i+1:]
}

// UserKind returns "object", "wildcard" or "userset".
func UserKind(u string) string {
	obj, rel := SplitUser(u)
	if rel != "" {
		return "userset"
	}
	_, id := SplitObject(obj)
	if id == "*" {
		return "wildcard"
	}
	return "object"
}

// UserType returns the type part of a user string.
func UserType(u string) string {
	obj, _ := SplitUser(u)
	t, _ := SplitObject(obj)
	return t
}

// ---- rendering (for samples and messages) ----

func (rw *Rewrite) render(restr []Restriction) string {
	switch rw.Kind {
	case This:
		parts := make([]string, len(restr))
		for i, r := range restr {
			parts[i] = r.String()
		}
		return "[" + strings.Join(parts, ", ") + "]"
	case Computed:
		return rw.Rel
	case TTU:
		return rw.Rel + " from " + rw.Tupleset
	case Union, Intersection:
		op := " or "
		if rw.Kind == Intersection {
			op = " and "
		}
		parts := make([]string, len(rw.Children))
		for i, c := range rw.Children {
			parts[i] = c.render(restr)
			if c.Kind == Union || c.Kind == Intersection || c.Kind == Difference {
				parts[i] = "(" + parts[i] + ")"
			}
		}
		return strings.Join(parts, op)
	case Difference:
		b, s := rw.Children[0].render(restr), rw.Children[1].render(restr)
		if k := rw.Children[0].Kind; k == Union || k == Intersection || k == Difference {
			b = "(" + b + ")"
		}
		if k := rw.Children[1].Kind; k == Union || k == Intersection || k == Difference {
			s = "(" + s + ")"
		}
		return b + " but not " + s
	}
	return "?"
}

// DSL renders the model in (approximately) the OpenFGA DSL; used for samples.
func (mo *Model) DSL() string {
	var b strings.Builder
	b.WriteString("model\n  schema 1.1\n")
	for _, td := range mo.Types {
		b.WriteString("type " + td.Name + "\n")
		if len(td.Relations) > 0 {
			b.WriteString("  relations\n")
		}
		for _, r := range td.Relations {
			b.WriteString("    define " + r.Name + ": " + r.Rewrite.render(r.Restr) + "\n")
		}
	}
	for _, c := range mo.Conds {
		ps := make([]string, len(c.Params))
		for i, p := range c.Params {
			ps[i] = p.Name + ": " + p.Type
		}
		b.WriteString("condition " + c.Name + "(" + strings.Join(ps, ", ") + ") {\n  " + c.Expr.CEL() + "\n}\n")
	}
	return b.String()
}

// SortTuples sorts tuples by key (deterministic order independent of maps).
func SortTuples(ts []Tuple) {
	sort.SliceStable(ts, func(i, j int) bool { return ts[i].Key() < ts[j].Key() })
}
