package p27

// Process-wide fixtures of the C27 check: three RSA keys (two published in the
// issuer's key set, one not), one loopback HTTP server that plays the OIDC
// issuer (discovery document + JWKS), and one OIDC authenticator per
// configuration (aliases configured or not x subjects configured or not).
// Everything is built lazily, once per process. Tokens are assembled by hand
// (base64url(header).base64url(payload).base64url(signature)) so that the
// harness neither depends on nor shares code with the JWT library under test.

import (
	"crypto"
	"crypto/hmac"
	"crypto/rand"
	"crypto/rsa"
	"crypto/sha256"
	"crypto/sha512"
	"crypto/x509"
	"encoding/base64"
	"encoding/json"
	"encoding/pem"
	"fmt"
	"math/big"
	"net/http"
	"net/http/httptest"
	"sync"
	"sync/atomic"

	"github.com/openfga/openfga/internal/authn/oidc"
)

const (
	cfgAudience = "c27-audience"
	kidA        = "c27-kid-a"
	kidB        = "c27-kid-b"
	kidUnknown  = "c27-kid-not-published"
)

var (
	cfgAliases  = []string{"https://alias-one.c27.example/", "c27-alias-two"}
	cfgSubjects = []string{"c27-subject-one", "c27 subject two"}
)

type world struct {
	keys     map[string]*rsa.PrivateKey // "A", "B" published; "X" not published
	hmacKeys map[string][]byte          // PEM of the public key, the classic RS/HS confusion key
	srv      *httptest.Server
	issuer   string
	auths    [2][2]*oidc.RemoteOidcAuthenticator // [aliases configured][subjects configured]
	jwksHits atomic.Int64
}

var (
	worldOnce sync.Once
	theWorld  *world
	worldErr  error
)

func b64(b []byte) string { return base64.RawURLEncoding.EncodeToString(b) }

func jwk(kid, alg string, pub *rsa.PublicKey) map[string]string {
	m := map[string]string{
		"kty": "RSA",
		"use": "sig",
		"kid": kid,
		"n":   b64(pub.N.Bytes()),
		"e":   b64(big.NewInt(int64(pub.E)).Bytes()),
	}
	if alg != "" {
		m["alg"] = alg
	}
	return m
}

func getWorld() (*world, error) {
	worldOnce.Do(func() {
		w := &world{keys: map[string]*rsa.PrivateKey{}, hmacKeys: map[string][]byte{}}
		for _, name := range []string{"A", "B", "X"} {
			k, err := rsa.GenerateKey(rand.Reader, 2048)
			if err != nil {
				worldErr = err
				return
			}
			w.keys[name] = k
			der, err := x509.MarshalPKIXPublicKey(&k.PublicKey)
			if err != nil {
				worldErr = err
				return
			}
			w.hmacKeys[name] = pem.EncodeToMemory(&pem.Block{Type: "PUBLIC KEY", Bytes: der})
		}
		// Key A is published with "alg":"RS256", key B without "alg" (the member
		// is optional, RFC 7517 section 4.4; several real issuers omit it).
		jwks, err := json.Marshal(map[string]any{"keys": []map[string]string{
			jwk(kidA, "RS256", &w.keys["A"].PublicKey),
			jwk(kidB, "", &w.keys["B"].PublicKey),
		}})
		if err != nil {
			worldErr = err
			return
		}
		mux := http.NewServeMux()
		mux.HandleFunc("/jwks", func(rw http.ResponseWriter, _ *http.Request) {
			w.jwksHits.Add(1)
			rw.Header().Set("Content-Type", "application/json")
			_, _ = rw.Write(jwks)
		})
		mux.HandleFunc("/.well-known/openid-configuration", func(rw http.ResponseWriter, _ *http.Request) {
			rw.Header().Set("Content-Type", "application/json")
			_ = json.NewEncoder(rw).Encode(map[string]string{"issuer": w.issuer, "jwks_uri": w.issuer + "/jwks"})
		})
		w.srv = httptest.NewServer(mux) // loopback only; lives as long as the process
		w.issuer = w.srv.URL
		for ai := 0; ai < 2; ai++ {
			for si := 0; si < 2; si++ {
				var al, su []string
				if ai == 1 {
					al = append(al, cfgAliases...)
				}
				if si == 1 {
					su = append(su, cfgSubjects...)
				}
				a, err := oidc.NewRemoteOidcAuthenticator(w.issuer, al, cfgAudience, su, nil)
				if err != nil {
					worldErr = fmt.Errorf("NewRemoteOidcAuthenticator(aliases=%v subjects=%v): %w", al, su, err)
					return
				}
				w.auths[ai][si] = a
			}
		}
		theWorld = w
	})
	return theWorld, worldErr
}

// sign produces the JWS signature of signingInput for the described
// algorithm and key. "none" has the empty signature.
func (w *world) sign(alg, key, signingInput string) ([]byte, error) {
	switch alg {
	case "RS256":
		h := sha256.Sum256([]byte(signingInput))
		return rsa.SignPKCS1v15(nil, w.keys[key], crypto.SHA256, h[:])
	case "RS384":
		h := sha512.Sum384([]byte(signingInput))
		return rsa.SignPKCS1v15(nil, w.keys[key], crypto.SHA384, h[:])
	case "HS256pub":
		m := hmac.New(sha256.New, w.hmacKeys[key])
		m.Write([]byte(signingInput))
		return m.Sum(nil), nil
	case "none":
		return nil, nil
	}
	return nil, fmt.Errorf("unknown alg %q", alg)
}

func headerAlg(alg string) string {
	if alg == "HS256pub" {
		return "HS256"
	}
	return alg
}
