package p27

// C27 - authentication accepts exactly valid credentials.
//
// A case is a *description* of a credential, never a token. check() builds the
// credential from the description and compares the authenticator's verdict
// with a predicate over the description (the oracle never parses the token).
//
// OIDC oracle (from the property statement): accept iff
//     alg = RS256  and  signed by a published key, signature intact
//     and exp present, numeric, in the future  and  iat not in the future
//     and aud names the configured audience (string or member of a list)
//     and iss = configured issuer, or a configured alias
//     and (no subjects configured  or  sub is one of them).
// `kid`: the statement says "signed by a key in the issuer's key set" and is
// silent about a `kid` header that is absent, unknown, or names a different
// published key; RFC 7515 calls `kid` a hint. So for those kid classes nothing
// is asserted when every other dimension is valid (either verdict is
// consistent with some reading); when another dimension is invalid, rejection
// is required under every reading and is asserted.
// `nbf` is never emitted (the statement does not speak about it).
//
// Pre-shared-key oracle: the request carries a bearer token iff its
// "authorization" value is "Bearer <token>"; accept iff <token> is, byte for
// byte, one of the configured keys. A scheme spelled in another case
// ("bearer", "BEARER") is treated as unspecified when the token is a key
// (RFC 7235 makes schemes case-insensitive, the openfga docs only show
// "Bearer"): nothing asserted on acceptance, rejection asserted otherwise.
//
// NT rule (DESIGN.md C27): an OIDC case is non-trivial when at most one
// dimension is invalid (all-valid or single-fault) and `kid` does not add a
// second reason (it names the signing key, or - for the unpublished key - a
// published one). A pre-shared-key case is non-trivial when the presented
// token is derived from a configured key (equal or near miss) and sent in the
// standard "Bearer <token>" shape.
//
// The wall clock is used only to place exp / iat at least one hour away from
// "now" when the token is built (allowed by the design; no boundary cases).

import (
	"context"
	"encoding/json"
	"fmt"
	"strconv"
	"strings"
	"testing"
	"time"
	"unicode"

	"google.golang.org/grpc/metadata"
	"pgregory.net/rapid"

	"github.com/openfga/openfga/internal/authn"
	"github.com/openfga/openfga/internal/authn/presharedkey"
	mwauthn "github.com/openfga/openfga/internal/middleware/authn"
	"github.com/openfga/openfga/pkg/authclaims"
	"github.com/openfga/openfga/verifharness/fw"
)

// ---------------------------------------------------------------- case

type Case struct {
	Kind string `json:"kind"` // "oidc" | "psk"
	OIDC *OIDC  `json:"oidc,omitempty"`
	PSK  *PSK   `json:"psk,omitempty"`
}

type OIDC struct {
	Aliases    bool   `json:"aliases_configured"`
	Subjects   bool   `json:"subjects_configured"`
	Alg        string `json:"alg"`         // RS256 | RS384 | HS256pub | none
	Key        string `json:"key"`         // A | B (published) | X (not published)
	Corrupt    string `json:"corrupt"`     // "" | bitflip | truncate | payload-swap | empty
	CorruptBit int    `json:"corrupt_bit"` // which bit, for bitflip
	Kid        string `json:"kid"`         // a | b | unknown | absent
	Exp        string `json:"exp"`         // future | absent | past | zero | string | numstring | bool | null
	ExpHours   int    `json:"exp_hours"`   // distance from now, >= 1
	ExpFloat   bool   `json:"exp_float"`   // emit a fractional NumericDate
	Iat        string `json:"iat"`         // absent | past | future
	IatHours   int    `json:"iat_hours"`
	Aud        string `json:"aud"` // configured | list-with | other | list-without | absent | empty
	AudVar     int    `json:"aud_var"`
	Iss        string `json:"iss"` // main | alias | other | absent | empty
	IssVar     int    `json:"iss_var"`
	Sub        string `json:"sub"` // allowed | other | absent | empty
	SubVar     int    `json:"sub_var"`
	Extra      bool   `json:"extra"` // benign extras: typ header, azp, scope
}

type PSK struct {
	Keys       []string `json:"keys"`
	Derivation string   `json:"derivation"` // label: how the token was derived from a key
	Shape      string   `json:"shape"`      // label: how the header was shaped
	HasHeader  bool     `json:"has_header"`
	Header     string   `json:"header"` // value of the "authorization" metadata
}

// ---------------------------------------------------------------- generator

var faultDims = []string{"alg", "signer", "exp", "iat", "aud", "iss", "sub"}

func pick(t *rapid.T, label string, vals ...string) string {
	return rapid.SampledFrom(vals).Draw(t, label)
}

func fillValid(t *rapid.T, o *OIDC) {
	o.Alg = "RS256"
	o.Key = pick(t, "key", "A", "B")
	o.Corrupt = ""
	o.Kid = strings.ToLower(o.Key)
	o.Exp = "future"
	o.ExpHours = rapid.IntRange(1, 87600).Draw(t, "expHours")
	o.ExpFloat = rapid.Bool().Draw(t, "expFloat")
	o.Iat = pick(t, "iat", "absent", "past")
	o.IatHours = rapid.IntRange(1, 87600).Draw(t, "iatHours")
	o.Aud = pick(t, "aud", "configured", "list-with")
	o.AudVar = rapid.IntRange(0, 3).Draw(t, "audVar")
	if o.Aliases {
		o.Iss = pick(t, "iss", "main", "alias")
	} else {
		o.Iss = "main"
	}
	o.IssVar = rapid.IntRange(0, 3).Draw(t, "issVar")
	if o.Subjects {
		o.Sub = "allowed"
	} else {
		o.Sub = pick(t, "sub", "allowed", "other", "absent", "empty")
	}
	o.SubVar = rapid.IntRange(0, 3).Draw(t, "subVar")
	o.Extra = rapid.Bool().Draw(t, "extra")
}

func injectFault(t *rapid.T, o *OIDC, dim string) {
	switch dim {
	case "alg":
		o.Alg = pick(t, "badAlg", "RS384", "HS256pub", "none")
	case "signer":
		switch pick(t, "badSigner", "other-key", "bitflip", "truncate", "payload-swap", "empty") {
		case "other-key":
			o.Key = "X"
			o.Kid = pick(t, "claimedKid", "a", "b")
		case "bitflip":
			o.Corrupt = "bitflip"
			o.CorruptBit = rapid.IntRange(0, 2047).Draw(t, "bit")
		case "truncate":
			o.Corrupt = "truncate"
		case "payload-swap":
			o.Corrupt = "payload-swap"
		case "empty":
			o.Corrupt = "empty"
		}
	case "exp":
		o.Exp = pick(t, "badExp", "absent", "past", "zero", "string", "numstring", "bool", "null")
	case "iat":
		o.Iat = "future"
	case "aud":
		o.Aud = pick(t, "badAud", "other", "list-without", "absent", "empty")
	case "iss":
		switch pick(t, "badIss", "other", "absent", "empty", "alias-unconfigured") {
		case "other":
			o.Iss = "other"
		case "absent":
			o.Iss = "absent"
		case "empty":
			o.Iss = "empty"
		case "alias-unconfigured":
			o.Aliases = false
			o.Iss = "alias"
		}
	case "sub":
		o.Subjects = true
		o.Sub = pick(t, "badSub", "other", "absent", "empty")
	}
}

func genOIDC(t *rapid.T) *OIDC {
	o := &OIDC{}
	o.Aliases = rapid.Bool().Draw(t, "aliasesConfigured")
	o.Subjects = rapid.Bool().Draw(t, "subjectsConfigured")
	fillValid(t, o)
	switch pick(t, "mode", "valid", "single", "single", "single", "single", "single", "kid", "free", "free") {
	case "valid":
	case "single":
		injectFault(t, o, pick(t, "dim", faultDims...))
	case "kid":
		if rapid.Bool().Draw(t, "kidPlusFault") {
			injectFault(t, o, pick(t, "dim", faultDims...))
		}
		o.Kid = pick(t, "kid", "unknown", "absent", "a", "b")
	case "free":
		for _, d := range faultDims {
			if rapid.IntRange(0, 9).Draw(t, "inject-"+d) < 3 {
				injectFault(t, o, d)
			}
		}
		if rapid.IntRange(0, 3).Draw(t, "freeKid") == 0 {
			o.Kid = pick(t, "kid", "unknown", "absent", "a", "b")
		}
	}
	return o
}

var keyRunes = []rune("abcdefXYZ0189-_.~+/=: é")

func genKey(t *rapid.T, label string) string {
	return rapid.StringOfN(rapid.SampledFrom(keyRunes), 1, 16, -1).Draw(t, label)
}

func swapCase(s string) string {
	return strings.Map(func(r rune) rune {
		if unicode.IsUpper(r) {
			return unicode.ToLower(r)
		}
		return unicode.ToUpper(r)
	}, s)
}

func genPSK(t *rapid.T) *PSK {
	p := &PSK{}
	n := rapid.IntRange(1, 4).Draw(t, "nKeys")
	for i := 0; i < n; i++ {
		p.Keys = append(p.Keys, genKey(t, "key"))
	}
	k := p.Keys[rapid.IntRange(0, n-1).Draw(t, "whichKey")]
	kr := []rune(k)
	p.Derivation = pick(t, "derivation", "equal", "equal", "equal", "prefix", "suffix", "case", "pad-lead", "pad-trail",
		"pad-tab", "empty", "extended", "concat", "rebearer", "other")
	tok := k
	switch p.Derivation {
	case "prefix":
		tok = string(kr[:rapid.IntRange(0, len(kr)-1).Draw(t, "cut")])
	case "suffix":
		tok = string(kr[rapid.IntRange(1, len(kr)).Draw(t, "cut"):])
	case "case":
		tok = swapCase(k)
	case "pad-lead":
		tok = " " + k
	case "pad-trail":
		tok = k + " "
	case "pad-tab":
		tok = k + pick(t, "ws", "\t", "\n", "\r\n", " ")
	case "empty":
		tok = ""
	case "extended":
		tok = k + genKey(t, "ext")
	case "concat":
		tok = k + pick(t, "sep", "", ",", " ") + p.Keys[rapid.IntRange(0, n-1).Draw(t, "otherKey")]
	case "rebearer":
		tok = "Bearer " + k
	case "other":
		tok = genKey(t, "otherTok")
	}
	p.Shape = pick(t, "shape", "standard", "standard", "standard", "standard", "standard", "standard", "lower", "upper",
		"no-header", "no-scheme", "basic", "double-space", "no-space")
	p.HasHeader = true
	switch p.Shape {
	case "standard":
		p.Header = "Bearer " + tok
	case "lower":
		p.Header = "bearer " + tok
	case "upper":
		p.Header = "BEARER " + tok
	case "no-header":
		p.HasHeader = false
	case "no-scheme":
		p.Header = tok
	case "basic":
		p.Header = "Basic " + tok
	case "double-space":
		p.Header = "Bearer  " + tok
	case "no-space":
		p.Header = "Bearer" + tok
	}
	return p
}

func gen(t *rapid.T) Case {
	if rapid.IntRange(0, 9).Draw(t, "kind") < 7 {
		return Case{Kind: "oidc", OIDC: genOIDC(t)}
	}
	return Case{Kind: "psk", PSK: genPSK(t)}
}

// ---------------------------------------------------------------- oracle

type verdict int

const (
	expectReject verdict = iota
	expectAccept
	unasserted
)

func (v verdict) String() string { return [...]string{"reject", "accept", "unasserted"}[v] }

// faults lists the invalid dimensions of the description (one entry per dimension).
func (o *OIDC) faults() []string {
	var f []string
	if o.Alg != "RS256" {
		f = append(f, "alg="+o.Alg)
	}
	if o.Key != "A" && o.Key != "B" || o.Corrupt != "" {
		var parts []string
		if o.Key != "A" && o.Key != "B" {
			parts = append(parts, "other-key")
		}
		if o.Corrupt != "" {
			parts = append(parts, "corrupt-"+o.Corrupt)
		}
		f = append(f, "signer="+strings.Join(parts, "+"))
	}
	if o.Exp != "future" {
		f = append(f, "exp="+o.Exp)
	}
	if o.Iat == "future" {
		f = append(f, "iat=future")
	}
	if o.Aud != "configured" && o.Aud != "list-with" {
		f = append(f, "aud="+o.Aud)
	}
	switch {
	case o.Iss == "main":
	case o.Iss == "alias" && o.Aliases:
	case o.Iss == "alias":
		f = append(f, "iss=alias-unconfigured")
	default:
		f = append(f, "iss="+o.Iss)
	}
	if o.Subjects && o.Sub != "allowed" {
		f = append(f, "sub="+o.Sub)
	}
	return f
}

// kidClass: match = names the signing key; other-published = names a published
// key that did not sign; unknown / absent.
func (o *OIDC) kidClass() string {
	switch o.Kid {
	case "a", "b":
		if strings.ToUpper(o.Kid) == o.Key {
			return "match"
		}
		return "other-published"
	case "absent":
		return "absent"
	}
	return "unknown"
}

func (o *OIDC) expect() verdict {
	if len(o.faults()) > 0 {
		return expectReject
	}
	if o.kidClass() == "match" {
		return expectAccept
	}
	return unasserted
}

// pskExpect decides from the request (header value) and the configured keys only.
func pskExpect(keys []string, hasHeader bool, header string) verdict {
	isKey := func(tok string) bool {
		for _, k := range keys {
			if k == tok {
				return true
			}
		}
		return false
	}
	const scheme = "Bearer "
	switch {
	case !hasHeader:
		return expectReject
	case strings.HasPrefix(header, scheme):
		if isKey(header[len(scheme):]) {
			return expectAccept
		}
		return expectReject
	case len(header) >= len(scheme) && strings.EqualFold(header[:len(scheme)], scheme):
		if isKey(header[len(scheme):]) {
			return unasserted
		}
		return expectReject
	}
	return expectReject
}

// ---------------------------------------------------------------- token construction

func pickVar(vals []string, i int) string {
	if i < 0 {
		i = -i
	}
	return vals[i%len(vals)]
}

func (w *world) claims(o *OIDC, now time.Time) map[string]any {
	c := map[string]any{}
	numeric := func(ts time.Time, frac bool) any {
		if frac {
			return float64(ts.Unix()) + 0.5
		}
		return ts.Unix()
	}
	eh := o.ExpHours
	if eh < 1 {
		eh = 1
	}
	ih := o.IatHours
	if ih < 1 {
		ih = 1
	}
	switch o.Exp {
	case "future":
		c["exp"] = numeric(now.Add(time.Duration(eh)*time.Hour), o.ExpFloat)
	case "past":
		c["exp"] = numeric(now.Add(-time.Duration(eh)*time.Hour), o.ExpFloat)
	case "zero":
		c["exp"] = 0
	case "string":
		c["exp"] = "never"
	case "numstring":
		c["exp"] = strconv.FormatInt(now.Add(time.Duration(eh)*time.Hour).Unix(), 10)
	case "bool":
		c["exp"] = true
	case "null":
		c["exp"] = nil
	}
	switch o.Iat {
	case "past":
		c["iat"] = now.Add(-time.Duration(ih) * time.Hour).Unix()
	case "future":
		c["iat"] = now.Add(time.Duration(ih) * time.Hour).Unix()
	}
	otherAud := pickVar([]string{cfgAudience + "x", cfgAudience[:len(cfgAudience)-1], strings.ToUpper(cfgAudience), "unrelated-audience"}, o.AudVar)
	switch o.Aud {
	case "configured":
		c["aud"] = cfgAudience
	case "list-with":
		c["aud"] = [][]string{{cfgAudience}, {otherAud, cfgAudience}, {cfgAudience, otherAud}, {otherAud, cfgAudience, w.issuer}}[abs(o.AudVar)%4]
	case "other":
		c["aud"] = otherAud
	case "list-without":
		c["aud"] = [][]string{{}, {otherAud}, {otherAud, w.issuer}, {""}}[abs(o.AudVar)%4]
	case "empty":
		c["aud"] = ""
	}
	switch o.Iss {
	case "main":
		c["iss"] = w.issuer
	case "alias":
		c["iss"] = pickVar(cfgAliases, o.IssVar)
	case "other":
		c["iss"] = pickVar([]string{w.issuer + "x", w.issuer[:len(w.issuer)-1], "https://evil.c27.example", cfgAliases[0] + "x"}, o.IssVar)
	case "empty":
		c["iss"] = ""
	}
	switch o.Sub {
	case "allowed":
		c["sub"] = pickVar(cfgSubjects, o.SubVar)
	case "other":
		c["sub"] = pickVar([]string{cfgSubjects[0] + " ", cfgSubjects[0][:len(cfgSubjects[0])-1], strings.ToUpper(cfgSubjects[0]), "someone-else"}, o.SubVar)
	case "empty":
		c["sub"] = ""
	}
	if o.Extra {
		c["azp"] = "c27-client"
		c["scope"] = "read write"
	}
	return c
}

func abs(i int) int {
	if i < 0 {
		return -i
	}
	return i
}

// buildToken assembles the compact JWS described by o. It returns the token
// and, for messages, the header and payload JSON.
func (w *world) buildToken(o *OIDC, now time.Time) (tok, hdrJSON, payJSON string, err error) {
	if _, ok := w.keys[o.Key]; !ok {
		return "", "", "", fmt.Errorf("unknown key %q", o.Key)
	}
	hdr := map[string]any{"alg": headerAlg(o.Alg)}
	if o.Extra {
		hdr["typ"] = "JWT"
	}
	switch o.Kid {
	case "a":
		hdr["kid"] = kidA
	case "b":
		hdr["kid"] = kidB
	case "absent":
	default:
		hdr["kid"] = kidUnknown
	}
	hb, err := json.Marshal(hdr)
	if err != nil {
		return "", "", "", err
	}
	cl := w.claims(o, now)
	pb, err := json.Marshal(cl)
	if err != nil {
		return "", "", "", err
	}
	signingInput := b64(hb) + "." + b64(pb)
	sig, err := w.sign(o.Alg, o.Key, signingInput)
	if err != nil {
		return "", "", "", err
	}
	switch o.Corrupt {
	case "":
	case "bitflip":
		if len(sig) == 0 {
			sig = []byte{1}
		} else {
			bit := abs(o.CorruptBit) % (len(sig) * 8)
			sig[bit/8] ^= 1 << (bit % 8)
		}
	case "truncate":
		if len(sig) > 0 {
			sig = sig[:len(sig)-1]
		} else {
			sig = []byte{0}
		}
	case "empty":
		if len(sig) == 0 {
			sig = []byte{0}
		} else {
			sig = nil
		}
	case "payload-swap":
		// the signature stays the one of the original payload
		cl["c27_swapped"] = true
		if pb, err = json.Marshal(cl); err != nil {
			return "", "", "", err
		}
		signingInput = b64(hb) + "." + b64(pb)
	default:
		return "", "", "", fmt.Errorf("unknown corruption %q", o.Corrupt)
	}
	return signingInput + "." + b64(sig), string(hb), string(pb), nil
}

// ---------------------------------------------------------------- check

type outcome struct {
	accepted bool
	err      error
	panicked any
}

func ctxWith(hasHeader bool, header string) context.Context {
	if !hasHeader {
		return metadata.NewIncomingContext(context.Background(), metadata.MD{})
	}
	return metadata.NewIncomingContext(context.Background(), metadata.Pairs("authorization", header))
}

func direct(a authn.Authenticator, ctx context.Context) (out outcome) {
	defer func() {
		if r := recover(); r != nil {
			out.panicked = r
		}
	}()
	cl, err := a.Authenticate(ctx)
	out.err = err
	out.accepted = err == nil && cl != nil
	if err == nil && cl == nil {
		out.err = fmt.Errorf("nil error with nil claims")
	}
	return out
}

func viaMiddleware(a authn.Authenticator, ctx context.Context) (out outcome) {
	defer func() {
		if r := recover(); r != nil {
			out.panicked = r
		}
	}()
	nctx, err := mwauthn.AuthFunc(a)(ctx)
	out.err = err
	if err == nil {
		if nctx == nil {
			out.err = fmt.Errorf("middleware returned nil context and nil error")
			return out
		}
		_, ok := authclaims.AuthClaimsFromContext(nctx)
		out.accepted = ok
		if !ok {
			out.err = fmt.Errorf("middleware returned nil error but no claims in context")
		}
	}
	return out
}

// judge compares both paths with the expectation; what = printable description.
func judge(kind string, exp verdict, faultDim string, d, m outcome, what string) *fw.Failure {
	if d.panicked != nil || m.panicked != nil {
		return fw.Failf("C27/"+kind+"-panic", "Authenticate panicked (direct=%v middleware=%v) on %s", d.panicked, m.panicked, what)
	}
	if d.accepted != m.accepted {
		return fw.Failf("C27/"+kind+"-middleware-disagrees", "direct accepted=%v (err=%v) but middleware accepted=%v (err=%v) on %s",
			d.accepted, d.err, m.accepted, m.err, what)
	}
	switch {
	case exp == expectAccept && !d.accepted:
		return fw.Failf("C27/"+kind+"-rejects-valid", "valid credential rejected (err=%v): %s", d.err, what)
	case exp == expectReject && d.accepted:
		return fw.Failf("C27/"+kind+"-accepts-invalid/"+faultDim, "invalid credential accepted: %s", what)
	}
	return nil
}

func checkOIDC(env *fw.Env, o *OIDC) *fw.Failure {
	w, err := getWorld()
	if err != nil {
		// fixture failure (keygen / loopback listener), not a property verdict
		env.Rec.Inconclusive()
		env.Rec.Add("fixture_error", 1)
		return nil
	}
	tok, hdr, pay, err := w.buildToken(o, time.Now())
	if err != nil {
		env.Rec.Discard("undescribable:" + err.Error())
		return nil
	}
	a := w.auths[b2i(o.Aliases)][b2i(o.Subjects)]
	ctx := ctxWith(true, "Bearer "+tok)
	d := direct(a, ctx)
	m := viaMiddleware(a, ctx)

	faults := o.faults()
	exp := o.expect()
	kc := o.kidClass()
	what := fmt.Sprintf("config{aliases=%v subjects=%v} header=%s payload=%s signer=%s corrupt=%q faults=%v kid=%s",
		o.Aliases, o.Subjects, hdr, pay, o.Key, o.Corrupt, faults, kc)
	dim := "none"
	if len(faults) > 0 {
		dim = strings.SplitN(faults[0], "=", 2)[0]
		if len(faults) > 1 {
			dim = "multi"
		}
	}
	if f := judge("oidc", exp, dim, d, m, what); f != nil {
		return f
	}

	kidNeutral := kc == "match" || (o.Key == "X" && kc == "other-published")
	nt := len(faults) <= 1 && kidNeutral
	classes := []string{"oidc", "oidc/kid:" + kc, "oidc/expect:" + exp.String(),
		fmt.Sprintf("oidc/cfg:aliases=%v,subjects=%v", o.Aliases, o.Subjects)}
	switch {
	case len(faults) == 0 && kidNeutral:
		classes = append(classes, "oidc/all-valid", "oidc/all-valid/key:"+o.Key, "oidc/all-valid/iss:"+o.Iss, "oidc/all-valid/aud:"+o.Aud,
			"oidc/all-valid/iat:"+o.Iat)
		if !o.Subjects {
			classes = append(classes, "oidc/all-valid/unconfigured-sub:"+o.Sub)
		}
	case len(faults) == 0:
		classes = append(classes, "oidc/valid-but-kid:"+kc)
	case len(faults) == 1 && kidNeutral:
		classes = append(classes, "oidc/fault:"+faults[0])
	case len(faults) == 1:
		classes = append(classes, "oidc/fault+kid")
	default:
		classes = append(classes, "oidc/multi-fault")
	}
	if exp == unasserted {
		classes = append(classes, fmt.Sprintf("oidc/unasserted-observed-accept=%v", d.accepted))
	}
	var sample any
	if nt {
		sample = map[string]any{"kind": "oidc", "header": hdr, "payload": pay, "faults": faults, "expected": exp.String(), "accepted": d.accepted}
	}
	env.Rec.Case(o, nt, sample, classes...)
	return nil
}

func checkPSK(env *fw.Env, p *PSK) *fw.Failure {
	if len(p.Keys) == 0 {
		env.Rec.Discard("psk-no-keys")
		return nil
	}
	for _, k := range p.Keys {
		if k == "" {
			env.Rec.Discard("psk-empty-configured-key")
			return nil
		}
	}
	a, err := presharedkey.NewPresharedKeyAuthenticator(p.Keys)
	if err != nil {
		return fw.Failf("C27/psk-constructor", "NewPresharedKeyAuthenticator(%q): %v", p.Keys, err)
	}
	ctx := ctxWith(p.HasHeader, p.Header)
	d := direct(a, ctx)
	m := viaMiddleware(a, ctx)
	exp := pskExpect(p.Keys, p.HasHeader, p.Header)
	what := fmt.Sprintf("keys=%q has_header=%v authorization=%q (derivation=%s shape=%s)", p.Keys, p.HasHeader, p.Header, p.Derivation, p.Shape)
	if f := judge("psk", exp, "non-key", d, m, what); f != nil {
		return f
	}
	nt := p.Derivation != "other" && p.Shape == "standard"
	classes := []string{"psk", "psk/derivation:" + p.Derivation, "psk/shape:" + p.Shape, "psk/expect:" + exp.String(),
		fmt.Sprintf("psk/keys:%d", len(p.Keys))}
	if nt {
		classes = append(classes, "psk/standard/"+p.Derivation+"->"+exp.String())
	}
	if exp == unasserted {
		classes = append(classes, fmt.Sprintf("psk/unasserted-observed-accept=%v", d.accepted))
	}
	var sample any
	if nt {
		sample = map[string]any{"kind": "psk", "keys": p.Keys, "authorization": p.Header, "derivation": p.Derivation, "expected": exp.String()}
	}
	env.Rec.Case(p, nt, sample, classes...)
	return nil
}

func b2i(b bool) int {
	if b {
		return 1
	}
	return 0
}

func check(env *fw.Env, c Case) *fw.Failure {
	switch {
	case c.Kind == "oidc" && c.OIDC != nil:
		return checkOIDC(env, c.OIDC)
	case c.Kind == "psk" && c.PSK != nil:
		return checkPSK(env, c.PSK)
	}
	env.Rec.Discard("malformed-case")
	return nil
}

func TestC27(t *testing.T) {
	if _, err := getWorld(); err != nil {
		t.Fatalf("C27 fixture (RSA keys / loopback issuer / authenticators) could not be built: %v", err)
	}
	fw.Run(t, "C27", gen, check)
}
