package p12

import (
	"context"
	"fmt"
	"sort"
	"strings"
	"sync"
	"testing"

	"pgregory.net/rapid"

	"github.com/openfga/openfga/pkg/storage"
	"github.com/openfga/openfga/pkg/storage/memory"

	"github.com/openfga/openfga/verifharness/fw"
	"github.com/openfga/openfga/verifharness/sut"
)

// C12 part A — model-based write histories.
//
// Case: a sequence of Write requests over 6 tuple keys x {no condition,
// c1{x:1}, c1{x:2}, c1 without context, c1 with empty context}. The same
// sequence is executed on four targets, each with its own R-store model:
//   srv-mem     Server.Write over the memory datastore
//   srv-sqlite  Server.Write over sqlite (migrated template file copied per case)
//   ds-mem      datastore.Write on the memory datastore
//   ds-sqlite   datastore.Write on the sqlite datastore
// After every request, Read (all tuples) and ReadChanges (all pages) are
// compared with the model.

type Case struct {
	Steps []Step `json:"steps"`
}

func genCase(t *rapid.T) Case {
	hi := 10
	if fw.TierIsThorough() {
		hi = 16
	}
	n := rapid.IntRange(3, hi).Draw(t, "nSteps")
	shadow := newRStore()
	var c Case
	for i := 0; i < n; i++ {
		s := genStep(t, shadow, true, true)
		if i > 0 && rapid.IntRange(0, 6).Draw(t, "retryPrevious") == 3 {
			// an idempotent retry: the previous request verbatim, this time with the ignore options
			s = c.Steps[i-1]
			s.Deletes = append([]int(nil), s.Deletes...)
			s.Writes = append([]Item(nil), s.Writes...)
			if len(s.Deletes) > 0 {
				s.OnMiss = "ignore"
			}
			if len(s.Writes) > 0 {
				s.OnDup = "ignore"
			}
		}
		if p := shadow.predict(s, true); p.out == predOK {
			shadow = p.next
		}
		c.Steps = append(c.Steps, s)
	}
	return c
}

type target struct {
	name    string // srv-mem, srv-sqlite, ds-mem, ds-sqlite
	backend string
	api     bool
	s       *sut.SUT
	ds      storage.OpenFGADatastore
	store   string
	model   string
	rs      *rstore
	pending *fw.Failure // first occurrence of a narrow-signature finding that does not end the sequence
}

var (
	memOnce sync.Once
	memSUT  *sut.SUT
)

var dsStoreID = sut.NewULID() // store used for direct datastore writes (never created through the API)

func (tg *target) exec(s Step) error {
	ctx := context.Background()
	if tg.api {
		_, err := tg.s.Srv.Write(ctx, s.apiRequest(tg.store, tg.model))
		return err
	}
	d, w, o := s.dsArgs()
	return tg.ds.Write(ctx, tg.store, d, w, o...)
}

// sigAbsentCtx: on the sqlite backend a Write with on_duplicate=ignore that
// contains a tuple identical to the stored one - condition name set, context
// absent - fails with "already exists with a different condition" (the stored
// tuple is read back with an empty context and compared with proto.Equal
// against the absent one).
const sigAbsentCtx = "C12/sqlite/ignore-identical-tuple-absent-context-conflict"

// absentContextConflict recognises exactly that shape: sqlite, ignore, every
// write to an existing key is a verbatim re-submission, at least one of them
// is the "c1 with absent context" variant, and the error is the condition
// conflict.
func (tg *target) absentContextConflict(before *rstore, s Step, err error) string {
	if tg.backend != "sqlite" || s.OnDup != "ignore" || err == nil {
		return ""
	}
	if !strings.Contains(err.Error(), "already exists with a different condition") {
		return ""
	}
	for _, it := range s.Writes {
		if sv, ok := before.tup[it.K]; ok && sv == vNilCtx && it.V == vNilCtx {
			return sigAbsentCtx
		}
	}
	return ""
}

func slug(s string) string {
	s = strings.ToLower(s)
	var b strings.Builder
	for _, r := range s {
		switch {
		case r >= 'a' && r <= 'z', r >= '0' && r <= '9':
			b.WriteRune(r)
		case b.Len() > 0 && !strings.HasSuffix(b.String(), "-"):
			b.WriteByte('-')
		}
	}
	return strings.Trim(b.String(), "-")
}

// replayChanges applies canonical change strings to a tuple map.
func replayChanges(base map[string]string, changes []string) (map[string]string, error) {
	out := map[string]string{}
	for k, v := range base {
		out[k] = v
	}
	for _, ch := range changes {
		parts := strings.SplitN(ch, " ", 3)
		switch parts[0] {
		case "D":
			if _, ok := out[parts[1]]; !ok {
				return nil, fmt.Errorf("changelog deletes %s which was not stored", parts[1])
			}
			delete(out, parts[1])
		case "W":
			if _, ok := out[parts[1]]; ok {
				return nil, fmt.Errorf("changelog writes %s which was already stored", parts[1])
			}
			c := ""
			if len(parts) > 2 {
				c = parts[2]
			}
			out[parts[1]] = c
		}
	}
	return out, nil
}

// verify runs one request on one target and compares with the model.
func (tg *target) verify(i int, s Step) (*prediction, *fw.Failure) {
	before := tg.rs
	p := before.predict(s, tg.api)
	err := tg.exec(s)
	obs, oerr := observe(tg.ds, tg.store)
	where := fmt.Sprintf("target %s, step %d: %s\nstate before: tuples=%v changes=%v", tg.name, i, s, before.tuples(), before.log)
	if oerr != nil {
		return &p, fw.Failf("C12/"+tg.name+"/read-failed", "%s\nwrite err=%v; reading back failed: %v", where, err, oerr)
	}
	if err != nil {
		// error => nothing changed
		if !sameTuples(obs.Tuples, before.tuples()) || !sameStrings(obs.Changes, before.log) {
			return &p, fw.Failf("C12/"+tg.name+"/failed-write-changed-state",
				"%s\nWrite failed (%v) but the store changed: %s", where, err, obs)
		}
		if p.out == predOK {
			if sig := tg.absentContextConflict(before, s, err); sig != "" {
				// Genuine defect with a narrow structural signature (see sigAbsentCtx). The
				// error changed nothing (checked above), so the sequence continues with the
				// model unchanged; the finding is returned at the end of the case unless
				// something else fails first.
				if tg.pending == nil {
					tg.pending = fw.Failf(sig, "%s\nthe request re-submits a stored tuple verbatim (condition c1, no context) with on_duplicate=ignore and must succeed, but failed: %v", where, err)
				}
				return &p, nil
			}
			sig := "C12/" + tg.name + "/unexpected-error"
			if p.skipped > 0 {
				sig += "-with-ignored-items"
			}
			return &p, fw.Failf(sig, "%s\nthe request must succeed (classes %v) but failed: %v", where, p.classes, err)
		}
		return &p, nil
	}
	// success
	if p.out == predErr {
		return &p, fw.Failf("C12/"+tg.name+"/unexpected-success:"+slug(p.why),
			"%s\nthe request must fail (%s) but succeeded; state after: %s", where, p.why, obs)
	}
	if len(obs.Changes) < len(before.log) || !sameStrings(obs.Changes[:len(before.log)], before.log) {
		return &p, fw.Failf("C12/"+tg.name+"/changelog-history-rewritten", "%s\nearlier changelog entries changed: %s", where, obs)
	}
	appended := obs.Changes[len(before.log):]
	if p.undocumented {
		// only self-consistency is asserted: tuples == old tuples + appended changes
		exp, rerr := replayChanges(before.tuples(), appended)
		if rerr != nil || !sameTuples(exp, obs.Tuples) {
			return &p, fw.Failf("C12/"+tg.name+"/tuples-and-changelog-disagree",
				"%s\nafter a successful write the changelog delta %v does not explain the tuples (%v): %s", where, appended, rerr, obs)
		}
		tg.rs = before.clone()
		tg.rs.resync(obs)
		return &p, nil
	}
	if !sameTuples(obs.Tuples, p.next.tuples()) {
		return &p, fw.Failf("C12/"+tg.name+"/success-tuples-mismatch",
			"%s\nWrite succeeded; expected tuples %v, got %s", where, p.next.tuples(), obs)
	}
	if !sameStrings(sortedCopy(appended), sortedCopy(p.appended)) {
		return &p, fw.Failf("C12/"+tg.name+"/success-changelog-mismatch",
			"%s\nWrite succeeded; expected appended changes %v (any order), got %v", where, p.appended, appended)
	}
	tg.rs = p.next
	tg.rs.log = append([]string(nil), obs.Changes...) // keep the observed order inside the request
	return &p, nil
}

func checkCase(env *fw.Env, c Case) *fw.Failure {
	if len(c.Steps) == 0 {
		// never generated: a replay file of the fault-enumeration test decoded as a history
		env.Rec.Discard("not a write history")
		return nil
	}
	tm := template()
	// memory: one process-wide server, a fresh store per case (API target) and a fresh
	// store id per case (datastore target); cases run one after the other.
	memOnce.Do(func() { memSUT = sut.NewWithDS(memory.New()) })
	mem := memSUT
	memStore, memModel := setupStore(mem)

	path := newDBFile(tm.path)
	defer removeDB(path)
	sq := sut.NewWithDS(openSqlite(path))
	defer sq.Close()

	targets := []*target{
		{name: "srv-mem", backend: "memory", api: true, s: mem, ds: mem.DS, store: memStore, model: memModel, rs: newRStore()},
		{name: "srv-sqlite", backend: "sqlite", api: true, s: sq, ds: sq.DS, store: tm.storeID, model: tm.modelID, rs: newRStore()},
		{name: "ds-mem", backend: "memory", s: mem, ds: mem.DS, store: sut.NewULID(), rs: newRStore()},
		{name: "ds-sqlite", backend: "sqlite", s: sq, ds: sq.DS, store: dsStoreID, rs: newRStore()},
	}

	classSet := map[string]bool{}
	nt := false
	okSteps, errSteps := 0, 0
	var ntStep string
	for i, s := range c.Steps {
		for _, tg := range targets {
			if !tg.api && s.hasJunk() {
				classSet["junk-option:not-expressible-at-datastore-level"] = true
				continue
			}
			p, f := tg.verify(i, s)
			if f != nil {
				return f
			}
			for _, cl := range p.classes {
				classSet[cl] = true
			}
			if tg.name == "srv-mem" {
				switch p.out {
				case predOK:
					okSteps++
					if p.effDeletes > 0 && p.effWrites > 0 {
						classSet["applied:deletes+writes"] = true
					}
					if p.skipped > 0 && p.effDeletes+p.effWrites > 0 {
						classSet["applied:partly-skipped"] = true
					}
					if p.skipped > 0 && p.effDeletes+p.effWrites == 0 {
						classSet["applied:all-items-skipped"] = true
					}
				case predErr:
					errSteps++
					if p.effDeletes+p.effWrites > 0 {
						classSet["rejected:with-applicable-items"] = true
					}
				}
				// NT: some request mixes >= 1 delete and >= 1 write and >= 1 item hits an option path
				if len(s.Deletes) > 0 && len(s.Writes) > 0 && p.optionPath {
					if !nt {
						ntStep = s.String()
					}
					nt = true
				}
			}
		}
	}
	if okSteps > 0 {
		classSet["has-successful-request"] = true
	}
	if errSteps > 0 {
		classSet["has-rejected-request"] = true
	}
	classes := make([]string, 0, len(classSet))
	for cl := range classSet {
		classes = append(classes, cl)
	}
	sort.Strings(classes)
	env.Rec.Add("requests_executed", len(c.Steps)*len(targets))
	var sample any
	if nt {
		sample = map[string]any{"steps": len(c.Steps), "a_nontrivial_request": ntStep, "classes": classes}
	}
	env.Rec.Case(c, nt, sample, classes...)
	for _, tg := range targets {
		if tg.pending != nil {
			return tg.pending
		}
	}
	return nil
}

func TestC12(t *testing.T) { fw.Run(t, "C12", genCase, checkCase) }
