package p12

import (
	"context"
	"encoding/json"
	"errors"
	"fmt"
	"os"
	"os/exec"
	"sort"
	"strings"
	"testing"

	"pgregory.net/rapid"

	"github.com/openfga/openfga/pkg/storage"

	"github.com/openfga/openfga/verifharness/fw"
)

// C12 part B — fault enumeration over the statement boundaries of the sqlite
// write transaction.
//
// Case: an initial state S (written fault-free into a fresh copy of the
// migrated template) and one datastore.Write W. The harness first counts the
// statement boundaries N of W (fault-free run through the wrapping driver),
// then for EVERY k < N re-runs W on a fresh copy of the same database with
//   (a) an error returned at boundary k,
//   (b) the connection closed + driver.ErrBadConn at boundary k,
//   (c) a real crash: a child process performs W and os.Exit(137)s at boundary
//       k; the parent reopens the file (quick tier: sampled k; thorough: all k).
// Oracle: final state (tuples AND changelog, read after reopening the file)
// is S or S+W as a whole; Write returned nil => S+W; an error / crash injected
// before COMMIT was executed => S.

type FCase struct {
	Init      []Item `json:"init"`
	W         Step   `json:"write"`
	CrashPick []int  `json:"crash_pick"` // quick tier: boundaries (mod N) for the child-process crash
}

func genFCase(t *rapid.T) FCase {
	var c FCase
	shadow := newRStore()
	// Part B uses the variants none / c1{x:1} / c1{x:2} only: the context-less variants
	// are covered by part A (and run into sigAbsentCtx on sqlite).
	noEmptyCtx := func(v int) int {
		switch v {
		case vNilCtx:
			return vCtx1
		case vEmptyCtx:
			return vCtx2
		}
		return v
	}
	for k := 0; k < nKeys; k++ {
		if rapid.IntRange(0, 1).Draw(t, "initPresent") == 1 {
			v := noEmptyCtx(genVariant(t))
			c.Init = append(c.Init, Item{K: k, V: v})
			shadow.tup[k] = v
		}
	}
	s := genStep(t, shadow, false, false)
	for i := range s.Writes {
		s.Writes[i].V = noEmptyCtx(s.Writes[i].V)
	}
	if rapid.IntRange(0, 9).Draw(t, "wantMixed") < 7 {
		// make sure the request carries at least one effective delete and one effective insert
		inReq := map[int]bool{}
		effD, effW := false, false
		for _, k := range s.Deletes {
			inReq[k] = true
			if _, ok := shadow.tup[k]; ok {
				effD = true
			}
		}
		for _, it := range s.Writes {
			inReq[it.K] = true
			if _, ok := shadow.tup[it.K]; !ok {
				effW = true
			}
		}
		for k := 0; k < nKeys && !(effD && effW); k++ {
			if inReq[k] {
				continue
			}
			if _, ok := shadow.tup[k]; ok && !effD {
				s.Deletes = append(s.Deletes, k)
				effD = true
			} else if !ok && !effW {
				s.Writes = append(s.Writes, Item{K: k, V: noEmptyCtx(genVariant(t))})
				effW = true
			}
		}
	}
	if rapid.IntRange(0, 99).Draw(t, "wantApplicable") < 85 {
		// repair the request so that it is valid: no-op items are covered by ignore
		if p := shadow.predict(s, false); p.out != predOK {
			if len(s.Deletes) > 0 {
				s.OnMiss = "ignore"
			}
			if len(s.Writes) > 0 {
				s.OnDup = "ignore"
			}
			for i, it := range s.Writes {
				if sv, ok := shadow.tup[it.K]; ok {
					s.Writes[i].V = sv
				}
			}
		}
	}
	c.W = s
	c.CrashPick = []int{rapid.IntRange(0, 63).Draw(t, "crashPick0"), rapid.IntRange(0, 63).Draw(t, "crashPick1")}
	return c
}

type faultRun struct {
	err       error
	ops       []string
	fired     bool
	live      *observed // read through the same (surviving) handle
	reopened  *observed // read after closing and reopening the file
	liveErr   error
	reopenErr error
}

func execDS(ds storage.OpenFGADatastore, s Step) error {
	d, w, o := s.dsArgs()
	return ds.Write(context.Background(), dsStoreID, d, w, o...)
}

// runWithFault runs W on a fresh copy of base with the given plan.
func runWithFault(base string, w Step, fireAt, kind int) faultRun {
	path := newDBFile(base)
	defer removeDB(path)
	p := newPlan(fireAt, kind)
	ds := openSqliteWithPlan(path, p)
	p.arm()
	err := execDS(ds, w)
	p.disarm()
	r := faultRun{err: err, ops: append([]string(nil), p.ops...), fired: p.fired}
	r.live, r.liveErr = observe(ds, dsStoreID)
	ds.Close()
	ds2 := openSqlite(path)
	r.reopened, r.reopenErr = observe(ds2, dsStoreID)
	ds2.Close()
	return r
}

type crashSpec struct {
	Path  string `json:"path"`
	Store string `json:"store"`
	W     Step   `json:"write"`
	K     int    `json:"k"`
}

const crashEnv = "VERIF_C12_CRASH_SPEC"

// crashHelperMain is the child-process branch of TestMain: perform the write
// and die at boundary K. It never returns.
func crashHelperMain(specJSON string) {
	var sp crashSpec
	if err := json.Unmarshal([]byte(specJSON), &sp); err != nil {
		fmt.Fprintf(os.Stderr, "crash helper: bad spec: %v\n", err)
		os.Exit(3)
	}
	p := newPlan(sp.K, faultCrash)
	ds := openSqliteWithPlan(sp.Path, p)
	p.arm()
	d, w, o := sp.W.dsArgs()
	err := ds.Write(context.Background(), sp.Store, d, w, o...)
	// boundary K was never reached
	fmt.Fprintf(os.Stdout, "COMPLETED boundaries=%d err=%v\n", p.n, err)
	ds.Close()
	os.Exit(0)
}

// runCrashChild runs W in a child process that crashes at boundary k and
// returns the state found after reopening the file.
func runCrashChild(base string, w Step, k int) (exit int, out string, obs *observed, err error) {
	path := newDBFile(base)
	defer removeDB(path)
	spec, _ := json.Marshal(crashSpec{Path: path, Store: dsStoreID, W: w, K: k})
	exe, eerr := os.Executable()
	if eerr != nil {
		exe = os.Args[0]
	}
	cmd := exec.Command(exe, "-test.run=^$")
	cmd.Env = append(os.Environ(), crashEnv+"="+string(spec))
	b, rerr := cmd.CombinedOutput()
	exit = 0
	if rerr != nil {
		var ee *exec.ExitError
		if errors.As(rerr, &ee) {
			exit = ee.ExitCode()
		} else {
			return -1, string(b), nil, rerr
		}
	}
	ds := openSqlite(path)
	defer ds.Close()
	obs, err = observe(ds, dsStoreID)
	return exit, string(b), obs, err
}

type expectedStates struct {
	S, SW    *rstore
	appended []string
}

func (e expectedStates) isS(o *observed) bool {
	return sameTuples(o.Tuples, e.S.tuples()) && sameStrings(o.Changes, e.S.log)
}

func (e expectedStates) isSW(o *observed) bool {
	n := len(e.S.log)
	return sameTuples(o.Tuples, e.SW.tuples()) && len(o.Changes) >= n && sameStrings(o.Changes[:n], e.S.log) &&
		sameStrings(sortedCopy(o.Changes[n:]), sortedCopy(e.appended))
}

// describeSplit names a state that is neither S nor S+W.
func (e expectedStates) describeSplit(o *observed) string {
	tup := "tuples-partial"
	if sameTuples(o.Tuples, e.S.tuples()) {
		tup = "tuples-old"
	} else if sameTuples(o.Tuples, e.SW.tuples()) {
		tup = "tuples-new"
	}
	n := len(e.S.log)
	lg := "changelog-partial"
	if sameStrings(o.Changes, e.S.log) {
		lg = "changelog-old"
	} else if len(o.Changes) >= n && sameStrings(o.Changes[:n], e.S.log) && sameStrings(sortedCopy(o.Changes[n:]), sortedCopy(e.appended)) {
		lg = "changelog-new"
	}
	return tup + "+" + lg
}

// judge applies the oracle to one observed final state.
// beforeCommit: the fault fired before COMMIT was executed.
func (e expectedStates) judge(o *observed, writeReturned bool, writeErr error, beforeCommit bool, kindName, what string) *fw.Failure {
	s, sw := e.isS(o), e.isSW(o)
	if !s && !sw {
		return fw.Failf("C12/fault/"+kindName+"/not-atomic:"+e.describeSplit(o),
			"%s\nfinal state is neither S nor S+W: %s\nS: tuples=%v changes=%v\nS+W: tuples=%v appended=%v", what, o, e.S.tuples(), e.S.log, e.SW.tuples(), e.appended)
	}
	if writeReturned && writeErr == nil && !sw {
		return fw.Failf("C12/fault/"+kindName+"/success-reported-but-not-applied",
			"%s\nWrite returned nil but the state is S, not S+W: %s", what, o)
	}
	if (!writeReturned || writeErr != nil) && beforeCommit && !s {
		return fw.Failf("C12/fault/"+kindName+"/failed-before-commit-but-applied",
			"%s\nthe fault hit before COMMIT (Write err=%v) but the state is S+W: %s", what, writeErr, o)
	}
	return nil
}

func checkFCase(env *fw.Env, c FCase) *fw.Failure {
	if len(c.W.Deletes)+len(c.W.Writes) == 0 {
		// never generated: a replay file of the history test decoded as a fault case
		env.Rec.Discard("not a fault case")
		return nil
	}
	tm := template()
	// --- base file: template + S
	S := newRStore()
	base := newDBFile(tm.path)
	defer removeDB(base)
	if len(c.Init) > 0 {
		ds := openSqlite(base)
		init := Step{Writes: c.Init}
		p := S.predict(init, false)
		if p.out != predOK {
			ds.Close()
			env.Rec.Discard("initial state has repeated keys")
			return nil
		}
		if err := execDS(ds, init); err != nil {
			ds.Close()
			return fw.Failf("C12/fault/setup-write-failed", "writing the initial state %v failed: %v", init, err)
		}
		S = p.next
		ds.Close()
	}
	p := S.predict(c.W, false)
	if p.out == predEither || c.W.hasJunk() {
		env.Rec.Discard("request outside the documented domain")
		return nil
	}
	exp := expectedStates{S: S, SW: S, appended: nil}
	if p.out == predOK {
		exp.SW, exp.appended = p.next, p.appended
	}
	desc := fmt.Sprintf("initial tuples=%v\nwrite: %s (fault-free prediction: %s)", S.tuples(), c.W, map[int]string{predOK: "success", predErr: "error: " + p.why}[p.out])

	// --- counting run (no fault)
	cr := runWithFault(base, c.W, -1, faultNone)
	if cr.liveErr != nil || cr.reopenErr != nil {
		return fw.Failf("C12/fault/read-failed", "%s\ncounting run: read errors %v / %v", desc, cr.liveErr, cr.reopenErr)
	}
	if (cr.err == nil) != (p.out == predOK) {
		return fw.Failf("C12/ds-sqlite/fault-free-outcome-mismatch", "%s\nfault-free run returned err=%v", desc, cr.err)
	}
	for _, o := range []*observed{cr.live, cr.reopened} {
		if f := exp.judge(o, true, cr.err, false, "none", desc+"\nfault-free run, ops="+strings.Join(cr.ops, ",")); f != nil {
			return f
		}
		if cr.err != nil && !exp.isS(o) {
			return fw.Failf("C12/ds-sqlite/failed-write-changed-state", "%s\nfault-free run failed (%v) but changed the state: %s", desc, cr.err, o)
		}
	}
	ops := cr.ops
	N := len(ops)
	commitIdx := -1
	for i, op := range ops {
		if op == "commit" {
			commitIdx = i
		}
	}
	if N == 0 || ops[0] != "begin" {
		return fw.Failf("C12/fault/harness-no-boundaries", "%s\nthe wrapping driver saw no transaction: ops=%v", desc, ops)
	}
	mixed := p.out == predOK && p.effDeletes > 0 && p.effWrites > 0
	// a fault at boundary k hits before COMMIT was executed iff k <= commitIdx (or no commit at all)
	beforeCommit := func(k int) bool { return commitIdx < 0 || k <= commitIdx }
	// k strictly inside the transaction: after BEGIN was executed, before COMMIT was executed
	inside := func(k int) bool { return k >= 1 && beforeCommit(k) }

	triples, ntTriples := 0, 0
	count := func(kind string, k int) {
		triples++
		env.Rec.Add("fault_triples:"+kind, 1)
		if mixed && inside(k) {
			ntTriples++
		}
	}
	classSet := map[string]bool{}
	inProcessKinds := []int{faultError, faultBadConn}
	if os.Getenv("VERIF_C12_ONLY_CRASH") != "" { // diagnostic knob for sensitivity runs; never set by the driver
		inProcessKinds = nil
	}
	for k := 0; k < N; k++ {
		for _, kind := range inProcessKinds {
			kn := faultNames[kind]
			fr := runWithFault(base, c.W, k, kind)
			what := fmt.Sprintf("%s\nfault %s at boundary %d/%d (%s) of ops=%s; Write returned err=%v; ops seen=%s",
				desc, kn, k, N, ops[k], strings.Join(ops, ","), fr.err, strings.Join(fr.ops, ","))
			if !fr.fired {
				return fw.Failf("C12/fault/harness-boundary-not-reached", "%s\nthe planned boundary was never reached", what)
			}
			if fr.liveErr != nil || fr.reopenErr != nil {
				return fw.Failf("C12/fault/"+kn+"/read-failed-after-fault", "%s\nreading back failed: live=%v reopened=%v", what, fr.liveErr, fr.reopenErr)
			}
			if f := exp.judge(fr.live, true, fr.err, beforeCommit(k), kn, what+"\n(state read through the surviving handle)"); f != nil {
				return f
			}
			if f := exp.judge(fr.reopened, true, fr.err, beforeCommit(k), kn, what+"\n(state read after reopening the file)"); f != nil {
				return f
			}
			if fr.err == nil {
				classSet["fault:"+kn+":write-still-succeeded"] = true
			} else if exp.isSW(fr.reopened) && !exp.isS(fr.reopened) {
				classSet["fault:"+kn+":error-reported-after-commit-applied"] = true
			} else {
				classSet["fault:"+kn+":error-reported-state-S"] = true
			}
			count(kn, k)
		}
	}
	// --- real crashes
	var crashKs []int
	if env.Tier == "thorough" {
		for k := 0; k < N; k++ {
			crashKs = append(crashKs, k)
		}
	} else {
		seen := map[int]bool{}
		for _, pk := range c.CrashPick {
			k := pk % N
			if !seen[k] {
				seen[k] = true
				crashKs = append(crashKs, k)
			}
		}
		sort.Ints(crashKs)
	}
	for _, k := range crashKs {
		exit, out, obs, err := runCrashChild(base, c.W, k)
		what := fmt.Sprintf("%s\nchild process crashed (exit %d) at boundary %d/%d (%s) of ops=%s", desc, exit, k, N, ops[k], strings.Join(ops, ","))
		if exit != 137 {
			return fw.Failf("C12/fault/harness-crash-child", "%s\nthe child did not die at the boundary: exit=%d err=%v output=%q", what, exit, err, out)
		}
		if err != nil {
			return fw.Failf("C12/fault/crash/read-failed-after-crash", "%s\nreopening/reading the database failed: %v", what, err)
		}
		if f := exp.judge(obs, false, nil, beforeCommit(k), "crash", what); f != nil {
			return f
		}
		if !beforeCommit(k) && exp.SW != exp.S {
			if exp.isSW(obs) {
				classSet["fault:crash:after-commit-state-S+W"] = true
			} else {
				classSet["fault:crash:after-commit-state-S"] = true
			}
		}
		count("crash", k)
	}

	env.Rec.Add("fault_triples", triples)
	env.Rec.Add("fault_triples_nontrivial", ntTriples)
	classes := []string{fmt.Sprintf("fault:N=%d", N), "fault:ops=" + strings.Join(ops, ",")}
	if mixed {
		classes = append(classes, "fault:write-mixes-delete+insert")
	}
	if p.out == predErr {
		classes = append(classes, "fault:write-invalid")
	} else if p.effDeletes+p.effWrites == 0 {
		classes = append(classes, "fault:write-all-skipped")
	}
	if p.skipped > 0 {
		classes = append(classes, "fault:write-has-ignored-items")
	}
	for cl := range classSet {
		classes = append(classes, cl)
	}
	sort.Strings(classes)
	// NT: the write really mixes >= 1 delete and >= 1 insert (then the boundaries 1..commit are
	// strictly inside a transaction that has both kinds of work pending); counted per triple above.
	nt := mixed && ntTriples > 0
	var sample any
	if nt {
		sample = map[string]any{"init": fmt.Sprint(S.tuples()), "write": c.W.String(), "boundaries": ops, "triples": triples, "crash_boundaries": crashKs}
	}
	env.Rec.Case(c, nt, sample, classes...)
	return nil
}

func TestC12Faults(t *testing.T) { fw.Run(t, "C12", genFCase, checkFCase) }
