package p12

import (
	"fmt"

	openfgav1 "github.com/openfga/api/proto/openfga/v1"
	"google.golang.org/protobuf/types/known/structpb"
	"pgregory.net/rapid"

	"github.com/openfga/openfga/pkg/storage"
)

// ---- the tuple universe: 6 keys x condition variants ----

var universeKeys = []struct{ Object, User string }{
	{"doc:0", "user:a"}, {"doc:0", "user:b"},
	{"doc:1", "user:a"}, {"doc:1", "user:b"},
	{"doc:2", "user:a"}, {"doc:2", "user:b"},
}

const nKeys = 6

func keyString(k int) string { return universeKeys[k].Object + "#viewer@" + universeKeys[k].User }

// Condition variants of a written tuple.
const (
	vNone     = 0 // no condition
	vCtx1     = 1 // c1 {x: 1}
	vCtx2     = 2 // c1 {x: 2}
	vNilCtx   = 3 // c1, context absent
	vEmptyCtx = 4 // c1, context present but empty ({})
	vNoCtxAny = 5 // model-only: c1 without context values, absent-vs-empty unknown (after a resync)
	nVariants = 5 // variants a request can carry
)

func variantCond(v int) *openfgav1.RelationshipCondition {
	mk := func(x float64) *structpb.Struct {
		s, _ := structpb.NewStruct(map[string]any{"x": x})
		return s
	}
	switch v {
	case vCtx1:
		return &openfgav1.RelationshipCondition{Name: "c1", Context: mk(1)}
	case vCtx2:
		return &openfgav1.RelationshipCondition{Name: "c1", Context: mk(2)}
	case vNilCtx:
		return &openfgav1.RelationshipCondition{Name: "c1"}
	case vEmptyCtx:
		return &openfgav1.RelationshipCondition{Name: "c1", Context: &structpb.Struct{}}
	}
	return nil
}

// variantCanon is the canonical rendering used by observe().
func variantCanon(v int) string {
	switch v {
	case vCtx1:
		return `c1|{"x":1}`
	case vCtx2:
		return `c1|{"x":2}`
	case vNilCtx, vEmptyCtx, vNoCtxAny:
		return "c1|"
	}
	return ""
}

func canonVariant(s string) int {
	switch s {
	case "":
		return vNone
	case `c1|{"x":1}`:
		return vCtx1
	case `c1|{"x":2}`:
		return vCtx2
	case "c1|":
		return vNoCtxAny
	}
	return -1
}

// tri-state comparison of the stored condition with the written one.
const (
	condSame = iota
	condDiff
	condUnknown // "context absent" vs "context empty": whether these are the same condition is not documented
)

func compareVariants(stored, written int) int {
	if stored == written {
		if stored == vNoCtxAny {
			return condUnknown
		}
		return condSame
	}
	noCtx := func(v int) bool { return v == vNilCtx || v == vEmptyCtx || v == vNoCtxAny }
	if noCtx(stored) && noCtx(written) {
		return condUnknown
	}
	return condDiff
}

// ---- requests ----

type Item struct {
	K int `json:"k"`
	V int `json:"v"`
}

// Step is one Write request. OnDup / OnMiss are sent only when the matching
// section is non-empty (an empty section is not sent at all).
type Step struct {
	Deletes []int  `json:"deletes,omitempty"`
	Writes  []Item `json:"writes,omitempty"`
	OnDup   string `json:"on_duplicate,omitempty"`
	OnMiss  string `json:"on_missing,omitempty"`
}

func (s Step) String() string {
	var d, w []string
	for _, k := range s.Deletes {
		d = append(d, keyString(k))
	}
	for _, it := range s.Writes {
		w = append(w, keyString(it.K)+" ["+variantCanon(it.V)+fmt.Sprintf("/v%d]", it.V))
	}
	return fmt.Sprintf("Write{deletes=%v on_missing=%q writes=%v on_duplicate=%q}", d, s.OnMiss, w, s.OnDup)
}

func validOption(o string) bool { return o == "" || o == "error" || o == "ignore" }

func (s Step) hasJunk() bool {
	return (len(s.Writes) > 0 && !validOption(s.OnDup)) || (len(s.Deletes) > 0 && !validOption(s.OnMiss))
}

func (s Step) apiRequest(storeID, modelID string) *openfgav1.WriteRequest {
	req := &openfgav1.WriteRequest{StoreId: storeID, AuthorizationModelId: modelID}
	if len(s.Deletes) > 0 {
		req.Deletes = &openfgav1.WriteRequestDeletes{OnMissing: s.OnMiss}
		for _, k := range s.Deletes {
			req.Deletes.TupleKeys = append(req.Deletes.TupleKeys, &openfgav1.TupleKeyWithoutCondition{
				Object: universeKeys[k].Object, Relation: "viewer", User: universeKeys[k].User})
		}
	}
	if len(s.Writes) > 0 {
		req.Writes = &openfgav1.WriteRequestWrites{OnDuplicate: s.OnDup}
		for _, it := range s.Writes {
			req.Writes.TupleKeys = append(req.Writes.TupleKeys, &openfgav1.TupleKey{
				Object: universeKeys[it.K].Object, Relation: "viewer", User: universeKeys[it.K].User, Condition: variantCond(it.V)})
		}
	}
	return req
}

// dsArgs renders the step for a direct datastore.Write call (valid options only).
func (s Step) dsArgs() (storage.Deletes, storage.Writes, []storage.TupleWriteOption) {
	req := s.apiRequest("", "")
	var opts []storage.TupleWriteOption
	// "" leaves the datastore default in place (documented default: error).
	switch s.OnMiss {
	case "ignore":
		opts = append(opts, storage.WithOnMissingDelete(storage.OnMissingDeleteIgnore))
	case "error":
		opts = append(opts, storage.WithOnMissingDelete(storage.OnMissingDeleteError))
	}
	switch s.OnDup {
	case "ignore":
		opts = append(opts, storage.WithOnDuplicateInsert(storage.OnDuplicateInsertIgnore))
	case "error":
		opts = append(opts, storage.WithOnDuplicateInsert(storage.OnDuplicateInsertError))
	}
	return req.GetDeletes().GetTupleKeys(), req.GetWrites().GetTupleKeys(), opts
}

// ---- R-store: the reference model ----

type rstore struct {
	tup map[int]int // key index -> stored variant
	log []string    // canonical change strings, append-only
}

func newRStore() *rstore { return &rstore{tup: map[int]int{}} }

func (r *rstore) clone() *rstore {
	c := &rstore{tup: map[int]int{}, log: append([]string(nil), r.log...)}
	for k, v := range r.tup {
		c.tup[k] = v
	}
	return c
}

func (r *rstore) tuples() map[string]string {
	out := map[string]string{}
	for k, v := range r.tup {
		out[keyString(k)] = variantCanon(v)
	}
	return out
}

const (
	predOK     = iota // documented: the request succeeds and is applied as a whole
	predErr           // documented: the request fails and nothing changes
	predEither        // an item falls outside what is documented: either outcome; an error still changes nothing
)

type prediction struct {
	out          int
	why          string // reason for predErr / predEither
	undocumented bool   // on success the resulting state is not documented either (datastore level only): resync
	next         *rstore
	appended     []string // canonical changes appended on success (order within one request is not asserted)
	effDeletes   int
	effWrites    int
	skipped      int // items skipped through an ignore option
	optionPath   bool
	classes      []string
}

// predict applies the property statement to one request. api=true: the
// request goes through Server.Write (request-level rules of the API apply);
// api=false: direct datastore.Write with valid options.
func (r *rstore) predict(s Step, api bool) prediction {
	p := prediction{out: predOK}
	fail := func(why string) {
		if p.out != predErr {
			p.out, p.why = predErr, why
		}
	}
	either := func(why string) {
		if p.out == predOK {
			p.out, p.why = predEither, why
		}
	}
	if api && s.hasJunk() {
		// documented by the API error: "invalid on_duplicate option" / "invalid on_missing option" (validation error)
		fail("invalid option string")
		p.classes = append(p.classes, "junk-option")
	}
	seen := map[int]int{}
	for _, k := range s.Deletes {
		seen[k]++
	}
	inBoth := false
	for _, it := range s.Writes {
		for _, k := range s.Deletes {
			if k == it.K {
				inBoth = true
			}
		}
		seen[it.K]++
	}
	repeated := false
	for _, n := range seen {
		if n > 1 {
			repeated = true
		}
	}
	if repeated {
		if inBoth {
			p.classes = append(p.classes, "key-deleted-and-written")
		} else {
			p.classes = append(p.classes, "duplicate-key-in-request")
		}
		if api {
			// documented by the API error code cannot_allow_duplicate_tuples_in_one_request
			fail("the same tuple key appears twice in one request")
		} else {
			// The datastore interface documents no rule for this shape.
			p.undocumented = true
			either("datastore-level request with a repeated key (undocumented)")
			p.classes = append(p.classes, "undocumented:ds-repeated-key")
		}
	}
	next := r.clone()
	for _, k := range s.Deletes {
		if _, ok := r.tup[k]; !ok {
			p.optionPath = true
			if s.OnMiss == "ignore" {
				p.skipped++
				p.classes = append(p.classes, "missing-delete:ignored")
				continue
			}
			p.classes = append(p.classes, "missing-delete:error")
			fail("delete of a missing tuple without on_missing=ignore")
			continue
		}
		if _, still := next.tup[k]; still {
			delete(next.tup, k)
			p.appended = append(p.appended, "D "+keyString(k))
			p.effDeletes++
		}
	}
	for _, it := range s.Writes {
		if sv, ok := r.tup[it.K]; ok {
			p.optionPath = true
			if s.OnDup != "ignore" {
				p.classes = append(p.classes, "duplicate-write:error")
				fail("write of an existing tuple without on_duplicate=ignore")
				continue
			}
			switch compareVariants(sv, it.V) {
			case condSame:
				p.skipped++
				p.classes = append(p.classes, "duplicate-write:ignored")
			case condDiff:
				p.classes = append(p.classes, "duplicate-write:different-condition")
				fail("existing tuple with a different condition, on_duplicate=ignore")
			default:
				p.classes = append(p.classes, "undocumented:absent-vs-empty-context")
				either("existing tuple whose context is absent/empty vs empty/absent (undocumented whether identical)")
			}
			continue
		}
		if _, already := next.tup[it.K]; !already {
			next.tup[it.K] = it.V
			p.appended = append(p.appended, "W "+keyString(it.K)+" "+variantCanon(it.V))
			p.effWrites++
		}
	}
	next.log = append(next.log, p.appended...)
	p.next = next
	return p
}

// resync replaces the model state by an observation (used only after a
// success whose resulting state is not documented).
func (r *rstore) resync(o *observed) {
	r.tup = map[int]int{}
	for k := 0; k < nKeys; k++ {
		if c, ok := o.Tuples[keyString(k)]; ok {
			r.tup[k] = canonVariant(c)
		}
	}
	r.log = append([]string(nil), o.Changes...)
}

// ---- generator ----

// rapid's draws are skewed towards small indexes: the interesting value comes first.
var optionChoices = []string{"ignore", "", "ignore", "error", "ignore", "", "ignore", "error"}
var junkOptions = []string{"IGNORE", "skip", "Error", " ignore", "overwrite", "0"}

func genOption(t *rapid.T, label string, allowJunk bool) string {
	if allowJunk && rapid.IntRange(0, 39).Draw(t, label+"Junk") == 23 {
		return rapid.SampledFrom(junkOptions).Draw(t, label+"JunkValue")
	}
	return rapid.SampledFrom(optionChoices).Draw(t, label)
}

func genVariant(t *rapid.T) int {
	// weights: none 5, ctx1 4, ctx2 4, absent ctx 2, empty ctx 1 (interleaved: rapid's index draws are skewed)
	return rapid.SampledFrom([]int{0, 1, 3, 2, 0, 1, 4, 2, 0, 1, 3, 2, 0, 1, 2, 0}).Draw(t, "variant")
}

// genStep draws one request. shadow biases the draw towards a mix of applied
// items and items that hit an option path; it never affects the oracle.
func genStep(t *rapid.T, shadow *rstore, allowJunk, allowRepeats bool) Step {
	var present, absent []int
	for k := 0; k < nKeys; k++ {
		if _, ok := shadow.tup[k]; ok {
			present = append(present, k)
		} else {
			absent = append(absent, k)
		}
	}
	pick := func(label string, prefer, other []int, pPrefer int) int {
		if len(prefer) > 0 && (len(other) == 0 || rapid.IntRange(0, 99).Draw(t, label+"Bias") < pPrefer) {
			return rapid.SampledFrom(prefer).Draw(t, label)
		}
		if len(other) > 0 {
			return rapid.SampledFrom(other).Draw(t, label)
		}
		return rapid.IntRange(0, nKeys-1).Draw(t, label)
	}
	var s Step
	nD := rapid.SampledFrom([]int{0, 0, 1, 1, 1, 2, 2, 3}).Draw(t, "nDeletes")
	nW := rapid.SampledFrom([]int{0, 1, 1, 1, 2, 2, 3, 3}).Draw(t, "nWrites")
	if nD+nW == 0 {
		nW = 1
	}
	repeats := allowRepeats && rapid.IntRange(0, 11).Draw(t, "allowRepeatedKey") == 0
	used := map[int]bool{}
	for i := 0; i < nD; i++ {
		k := pick("deleteKey", present, absent, 60)
		if used[k] && !repeats {
			continue
		}
		used[k] = true
		s.Deletes = append(s.Deletes, k)
	}
	for i := 0; i < nW; i++ {
		k := pick("writeKey", absent, present, 40)
		if used[k] && !repeats {
			continue
		}
		used[k] = true
		v := genVariant(t)
		if sv, ok := shadow.tup[k]; ok && sv < nVariants && rapid.IntRange(0, 2).Draw(t, "sameAsStored") != 2 {
			v = sv // re-submit the stored tuple verbatim: the ignore path proper
		}
		s.Writes = append(s.Writes, Item{K: k, V: v})
	}
	if len(s.Deletes)+len(s.Writes) == 0 {
		s.Writes = []Item{{K: pick("writeKey", absent, present, 62), V: genVariant(t)}}
	}
	if len(s.Deletes) > 0 {
		s.OnMiss = genOption(t, "onMissing", allowJunk)
	}
	if len(s.Writes) > 0 {
		s.OnDup = genOption(t, "onDuplicate", allowJunk)
	}
	return s
}
