package p12

import (
	"os"
	"testing"

	"github.com/openfga/openfga/verifharness/fw"
)

func TestMain(m *testing.M) {
	// Child-process branch of the crash enumeration (TestC12Faults): perform one
	// write and die at the requested statement boundary. No test runs, no
	// evidence is flushed, nothing is cleaned up (the parent owns the files).
	if spec := os.Getenv(crashEnv); spec != "" {
		crashHelperMain(spec)
		os.Exit(3) // not reached
	}
	code := m.Run()
	fw.FlushAll()
	cleanupTemplate()
	os.Exit(code)
}
