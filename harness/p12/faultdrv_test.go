package p12

import (
	"context"
	"database/sql"
	"database/sql/driver"
	"errors"
	"os"
	"strings"
	"sync"

	msqlite "modernc.org/sqlite"
)

// A database/sql driver that wraps modernc's sqlite driver and turns every
// driver-level call of a transaction (BeginTx, ExecContext, QueryContext,
// prepared Stmt exec/query, Tx.Commit) into a numbered "statement boundary".
// A plan either only counts the boundaries or injects one fault at boundary k:
//   faultError    the call is not executed, an error is returned instead
//   faultBadConn  the underlying connection is closed, driver.ErrBadConn is returned
//   faultCrash    the process exits with status 137 (used in a child process)
// One extra boundary "after-commit" follows a successful COMMIT (the commit has
// been executed, the caller has not been told yet).

const (
	faultNone = iota
	faultError
	faultBadConn
	faultCrash
)

var faultNames = map[int]string{faultError: "error", faultBadConn: "badconn", faultCrash: "crash"}

var errInjected = errors.New("verif: injected database fault")

type plan struct {
	mu      sync.Mutex
	armed   bool
	fireAt  int // boundary index at which the fault fires; <0: count only
	kind    int
	n       int      // boundaries seen while armed
	ops     []string // names of the boundaries seen while armed
	fired   bool
	firedOp string
}

func newPlan(fireAt, kind int) *plan { return &plan{fireAt: fireAt, kind: kind} }

func (p *plan) arm()    { p.mu.Lock(); p.armed = true; p.mu.Unlock() }
func (p *plan) disarm() { p.mu.Lock(); p.armed = false; p.mu.Unlock() }

// boundary registers one statement boundary and reports whether the fault
// fires here.
func (p *plan) boundary(op string) (fire bool, kind int) {
	if p == nil {
		return false, faultNone
	}
	p.mu.Lock()
	defer p.mu.Unlock()
	if !p.armed {
		return false, faultNone
	}
	idx := p.n
	p.n++
	p.ops = append(p.ops, op)
	if p.fired || p.fireAt < 0 || idx != p.fireAt {
		return false, faultNone
	}
	p.fired = true
	p.firedOp = op
	if p.kind == faultCrash {
		os.Exit(137) // a real crash: no deferred calls, no rollback, files left as they are
	}
	return true, p.kind
}

func opName(kind, query string) string {
	q := strings.ToUpper(strings.TrimSpace(query))
	switch {
	case strings.HasPrefix(q, "SELECT"):
		return kind + ":select"
	case strings.HasPrefix(q, "DELETE FROM TUPLE"):
		return kind + ":delete-tuple"
	case strings.HasPrefix(q, "INSERT INTO TUPLE"):
		return kind + ":insert-tuple"
	case strings.HasPrefix(q, "INSERT INTO CHANGELOG"):
		return kind + ":insert-changelog"
	}
	f := strings.Fields(q)
	if len(f) > 0 {
		return kind + ":" + strings.ToLower(f[0])
	}
	return kind
}

var baseDriver = &msqlite.Driver{}

type faultDriver struct{}

func (faultDriver) Open(name string) (driver.Conn, error) {
	inner, err := baseDriver.Open(name)
	if err != nil {
		return nil, err
	}
	return &faultConn{inner: inner}, nil
}

func init() { sql.Register("verif-c12-sqlite", faultDriver{}) }

// faultConnector binds one plan to one *sql.DB (sql.OpenDB).
type faultConnector struct {
	dsn string
	p   *plan
}

func (c *faultConnector) Connect(context.Context) (driver.Conn, error) {
	inner, err := baseDriver.Open(c.dsn)
	if err != nil {
		return nil, err
	}
	return &faultConn{inner: inner, p: c.p}, nil
}

func (c *faultConnector) Driver() driver.Driver { return faultDriver{} }

type faultConn struct {
	inner driver.Conn
	p     *plan
	dead  bool
}

// hit handles one boundary; a non-nil error must be returned to database/sql
// instead of executing the call.
func (c *faultConn) hit(op string) error {
	if c.dead {
		return driver.ErrBadConn
	}
	fire, kind := c.p.boundary(op)
	if !fire {
		return nil
	}
	switch kind {
	case faultBadConn:
		c.kill()
		return driver.ErrBadConn
	default:
		return errInjected
	}
}

func (c *faultConn) kill() {
	if !c.dead {
		c.dead = true
		_ = c.inner.Close() // sqlite rolls back the open transaction of a closed connection
	}
}

func (c *faultConn) Prepare(query string) (driver.Stmt, error) {
	return c.PrepareContext(context.Background(), query)
}

func (c *faultConn) PrepareContext(ctx context.Context, query string) (driver.Stmt, error) {
	if c.dead {
		return nil, driver.ErrBadConn
	}
	st, err := c.inner.(driver.ConnPrepareContext).PrepareContext(ctx, query)
	if err != nil {
		return nil, err
	}
	return &faultStmt{inner: st, c: c, query: query}, nil
}

func (c *faultConn) Close() error {
	if c.dead {
		return nil
	}
	c.dead = true
	return c.inner.Close()
}

func (c *faultConn) Begin() (driver.Tx, error) {
	return c.BeginTx(context.Background(), driver.TxOptions{})
}

func (c *faultConn) BeginTx(ctx context.Context, opts driver.TxOptions) (driver.Tx, error) {
	if err := c.hit("begin"); err != nil {
		return nil, err
	}
	tx, err := c.inner.(driver.ConnBeginTx).BeginTx(ctx, opts)
	if err != nil {
		return nil, err
	}
	return &faultTx{inner: tx, c: c}, nil
}

func (c *faultConn) ExecContext(ctx context.Context, query string, args []driver.NamedValue) (driver.Result, error) {
	if err := c.hit(opName("exec", query)); err != nil {
		return nil, err
	}
	return c.inner.(driver.ExecerContext).ExecContext(ctx, query, args)
}

func (c *faultConn) QueryContext(ctx context.Context, query string, args []driver.NamedValue) (driver.Rows, error) {
	if err := c.hit(opName("query", query)); err != nil {
		return nil, err
	}
	return c.inner.(driver.QueryerContext).QueryContext(ctx, query, args)
}

func (c *faultConn) Ping(ctx context.Context) error {
	if c.dead {
		return driver.ErrBadConn
	}
	if p, ok := c.inner.(driver.Pinger); ok {
		return p.Ping(ctx)
	}
	return nil
}

func (c *faultConn) ResetSession(ctx context.Context) error {
	if c.dead {
		return driver.ErrBadConn
	}
	if r, ok := c.inner.(driver.SessionResetter); ok {
		return r.ResetSession(ctx)
	}
	return nil
}

func (c *faultConn) IsValid() bool {
	if c.dead {
		return false
	}
	if v, ok := c.inner.(driver.Validator); ok {
		return v.IsValid()
	}
	return true
}

type faultTx struct {
	inner driver.Tx
	c     *faultConn
}

func (t *faultTx) Commit() error {
	if err := t.c.hit("commit"); err != nil {
		// A driver whose COMMIT fails must leave the connection outside the
		// transaction (database/sql puts it back into the pool without a
		// rollback; modernc's own Commit forces a ROLLBACK on failure).
		if !t.c.dead {
			_ = t.inner.Rollback()
		}
		return err
	}
	if err := t.inner.Commit(); err != nil {
		return err
	}
	// the commit has been executed; the caller does not know yet
	return t.c.hit("after-commit")
}

func (t *faultTx) Rollback() error {
	if t.c.dead {
		return driver.ErrBadConn
	}
	return t.inner.Rollback()
}

type faultStmt struct {
	inner driver.Stmt
	c     *faultConn
	query string
}

func (s *faultStmt) Close() error {
	if s.c.dead {
		return nil
	}
	return s.inner.Close()
}
func (s *faultStmt) NumInput() int { return s.inner.NumInput() }

func (s *faultStmt) Exec(args []driver.Value) (driver.Result, error) {
	return nil, errors.New("verif: Stmt.Exec without context is not supported")
}

func (s *faultStmt) Query(args []driver.Value) (driver.Rows, error) {
	return nil, errors.New("verif: Stmt.Query without context is not supported")
}

func (s *faultStmt) ExecContext(ctx context.Context, args []driver.NamedValue) (driver.Result, error) {
	if err := s.c.hit(opName("stmt-exec", s.query)); err != nil {
		return nil, err
	}
	return s.inner.(driver.StmtExecContext).ExecContext(ctx, args)
}

func (s *faultStmt) QueryContext(ctx context.Context, args []driver.NamedValue) (driver.Rows, error) {
	if err := s.c.hit(opName("stmt-query", s.query)); err != nil {
		return nil, err
	}
	return s.inner.(driver.StmtQueryContext).QueryContext(ctx, args)
}
