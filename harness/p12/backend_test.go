package p12

import (
	"context"
	"database/sql"
	"encoding/json"
	"errors"
	"fmt"
	"io"
	"os"
	"path/filepath"
	"sort"
	"sync"
	"sync/atomic"
	"time"

	openfgav1 "github.com/openfga/api/proto/openfga/v1"

	"github.com/openfga/openfga/pkg/storage"
	"github.com/openfga/openfga/pkg/storage/migrate"
	"github.com/openfga/openfga/pkg/storage/sqlcommon"
	"github.com/openfga/openfga/pkg/storage/sqlite"

	"github.com/openfga/openfga/verifharness/sut"
)

// ---- the fixed authorization model ----
//
//	type user
//	type doc
//	  relations
//	    define viewer: [user, user with c1]
//	condition c1(x: int) { x < 100 }

func modelRequest(storeID string) *openfgav1.WriteAuthorizationModelRequest {
	return &openfgav1.WriteAuthorizationModelRequest{
		StoreId:       storeID,
		SchemaVersion: "1.1",
		TypeDefinitions: []*openfgav1.TypeDefinition{
			{Type: "user"},
			{
				Type:      "doc",
				Relations: map[string]*openfgav1.Userset{"viewer": {Userset: &openfgav1.Userset_This{This: &openfgav1.DirectUserset{}}}},
				Metadata: &openfgav1.Metadata{Relations: map[string]*openfgav1.RelationMetadata{
					"viewer": {DirectlyRelatedUserTypes: []*openfgav1.RelationReference{{Type: "user"}, {Type: "user", Condition: "c1"}}},
				}},
			},
		},
		Conditions: map[string]*openfgav1.Condition{
			"c1": {
				Name: "c1", Expression: "x < 100",
				Parameters: map[string]*openfgav1.ConditionParamTypeRef{"x": {TypeName: openfgav1.ConditionParamTypeRef_TYPE_NAME_INT}},
			},
		},
	}
}

func setupStore(s *sut.SUT) (storeID, modelID string) {
	storeID = s.CreateStore("c12")
	resp, err := s.Srv.WriteAuthorizationModel(context.Background(), modelRequest(storeID))
	if err != nil {
		panic(fmt.Sprintf("p12: WriteAuthorizationModel: %v", err))
	}
	return storeID, resp.GetAuthorizationModelId()
}

// ---- sqlite template (migrated once per process, copied per case) ----

type sqliteTemplate struct {
	dir     string
	path    string
	storeID string // store created through the API inside the template (with the model)
	modelID string
}

var (
	tmplOnce sync.Once
	tmpl     *sqliteTemplate
	tmplErr  error
	fileSeq  atomic.Int64
)

// template migrates the sqlite template once per process (scratch directory under os.MkdirTemp).
func template() *sqliteTemplate {
	tmplOnce.Do(func() {
		dir, err := os.MkdirTemp("", "verif-c12-")
		if err != nil {
			tmplErr = err
			return
		}
		t := &sqliteTemplate{dir: dir, path: filepath.Join(dir, "template.db")}
		tmpl = t // so cleanup removes the directory even when a later step fails
		if err := migrate.RunMigrations(migrate.MigrationConfig{
			Engine: "sqlite", URI: "file:" + t.path, Timeout: 60 * time.Second, PingTimeout: 10 * time.Second,
		}); err != nil {
			tmplErr = fmt.Errorf("migrate: %w", err)
			return
		}
		ds, err := sqlite.New("file:"+t.path, sqlcommon.NewConfig())
		if err != nil {
			tmplErr = err
			return
		}
		s := sut.NewWithDS(ds)
		t.storeID, t.modelID = setupStore(s)
		s.Close() // closes the datastore: last connection closed => WAL checkpointed and removed
	})
	if tmplErr != nil {
		panic(fmt.Sprintf("p12: sqlite template: %v", tmplErr))
	}
	return tmpl
}

// cleanupTemplate removes the scratch directory; called from TestMain.
func cleanupTemplate() {
	if tmpl != nil && tmpl.dir != "" {
		_ = os.RemoveAll(tmpl.dir)
	}
}

func copyFile(src, dst string) error {
	in, err := os.Open(src)
	if err != nil {
		return err
	}
	defer in.Close()
	out, err := os.Create(dst)
	if err != nil {
		return err
	}
	if _, err := io.Copy(out, in); err != nil {
		out.Close()
		return err
	}
	return out.Close()
}

// copyDB copies a closed sqlite database (and a leftover -wal, should one exist).
func copyDB(src, dst string) {
	if err := copyFile(src, dst); err != nil {
		panic(fmt.Sprintf("p12: copy db: %v", err))
	}
	if _, err := os.Stat(src + "-wal"); err == nil {
		if err := copyFile(src+"-wal", dst+"-wal"); err != nil {
			panic(fmt.Sprintf("p12: copy wal: %v", err))
		}
	}
}

func removeDB(path string) {
	for _, suf := range []string{"", "-wal", "-shm", "-journal"} {
		_ = os.Remove(path + suf)
	}
}

// newDBFile returns the path of a fresh copy of src inside the scratch dir.
func newDBFile(src string) string {
	t := template()
	p := filepath.Join(t.dir, fmt.Sprintf("case-%d-%d.db", os.Getpid(), fileSeq.Add(1)))
	copyDB(src, p)
	return p
}

func openSqlite(path string) storage.OpenFGADatastore {
	ds, err := sqlite.New("file:"+path, sqlcommon.NewConfig())
	if err != nil {
		panic(fmt.Sprintf("p12: open sqlite: %v", err))
	}
	return ds
}

// openSqliteWithPlan opens the file through the fault-injecting driver.
func openSqliteWithPlan(path string, p *plan) storage.OpenFGADatastore {
	dsn, err := sqlite.PrepareDSN("file:" + path)
	if err != nil {
		panic(err)
	}
	db := sql.OpenDB(&faultConnector{dsn: dsn, p: p})
	ds, err := sqlite.NewWithDB(db, sqlcommon.NewConfig())
	if err != nil {
		panic(fmt.Sprintf("p12: open sqlite (fault driver): %v", err))
	}
	return ds
}

// ---- observation: all tuples + all changelog pages, canonical strings ----

type observed struct {
	Tuples  map[string]string // tuple key -> canonical condition ("" = none)
	Changes []string          // "W <key> <cond>" / "D <key>" in changelog order
}

// canonCond renders a relationship condition canonically: name|json(context);
// a nil and an empty context are both rendered as an empty context.
func canonCond(c *openfgav1.RelationshipCondition) string {
	if c == nil || c.GetName() == "" {
		return ""
	}
	ctx := ""
	if c.GetContext() != nil && len(c.GetContext().GetFields()) > 0 {
		b, _ := json.Marshal(c.GetContext().AsMap())
		ctx = string(b)
	}
	return c.GetName() + "|" + ctx
}

func keyOf(tk interface {
	GetObject() string
	GetRelation() string
	GetUser() string
}) string {
	return tk.GetObject() + "#" + tk.GetRelation() + "@" + tk.GetUser()
}

func observe(ds storage.OpenFGADatastore, store string) (*observed, error) {
	ctx := context.Background()
	o := &observed{Tuples: map[string]string{}}
	it, err := ds.Read(ctx, store, storage.ReadFilter{}, storage.ReadOptions{})
	if err != nil {
		return nil, fmt.Errorf("Read: %w", err)
	}
	for {
		t, err := it.Next(ctx)
		if err != nil {
			if errors.Is(err, storage.ErrIteratorDone) {
				break
			}
			it.Stop()
			return nil, fmt.Errorf("Read.Next: %w", err)
		}
		k := keyOf(t.GetKey())
		if _, dup := o.Tuples[k]; dup {
			it.Stop()
			return nil, fmt.Errorf("Read returned key %s twice", k)
		}
		o.Tuples[k] = canonCond(t.GetKey().GetCondition())
	}
	it.Stop()
	from := ""
	for page := 0; ; page++ {
		if page > 10000 {
			return nil, fmt.Errorf("ReadChanges does not terminate")
		}
		chs, tok, err := ds.ReadChanges(ctx, store, storage.ReadChangesFilter{}, storage.ReadChangesOptions{
			Pagination: storage.PaginationOptions{PageSize: 9, From: from},
		})
		if errors.Is(err, storage.ErrNotFound) {
			break
		}
		if err != nil {
			return nil, fmt.Errorf("ReadChanges: %w", err)
		}
		for _, ch := range chs {
			switch ch.GetOperation() {
			case openfgav1.TupleOperation_TUPLE_OPERATION_WRITE:
				o.Changes = append(o.Changes, "W "+keyOf(ch.GetTupleKey())+" "+canonCond(ch.GetTupleKey().GetCondition()))
			case openfgav1.TupleOperation_TUPLE_OPERATION_DELETE:
				// the condition of a deleted tuple is not part of the property
				o.Changes = append(o.Changes, "D "+keyOf(ch.GetTupleKey()))
			default:
				return nil, fmt.Errorf("ReadChanges: unknown operation %v", ch.GetOperation())
			}
		}
		if tok == "" || len(chs) == 0 {
			break
		}
		from = tok
	}
	return o, nil
}

func (o *observed) String() string {
	var ks []string
	for k, v := range o.Tuples {
		ks = append(ks, k+" ["+v+"]")
	}
	sort.Strings(ks)
	return fmt.Sprintf("tuples=%v changes=%v", ks, o.Changes)
}

func sameTuples(a, b map[string]string) bool {
	if len(a) != len(b) {
		return false
	}
	for k, v := range a {
		if w, ok := b[k]; !ok || w != v {
			return false
		}
	}
	return true
}

func sameStrings(a, b []string) bool {
	if len(a) != len(b) {
		return false
	}
	for i := range a {
		if a[i] != b[i] {
			return false
		}
	}
	return true
}

func sortedCopy(a []string) []string {
	out := append([]string(nil), a...)
	sort.Strings(out)
	return out
}
