package semkit

import (
	"context"
	"fmt"
	"hash/fnv"
	"sort"
	"sync"
	"time"

	openfgav1 "github.com/openfga/api/proto/openfga/v1"

	"github.com/openfga/openfga/internal/graph"
	"github.com/openfga/openfga/internal/planner"
	"github.com/openfga/openfga/internal/throttler/threshold"
	"github.com/openfga/openfga/pkg/featureflags"
	"github.com/openfga/openfga/pkg/server/commands"
	"github.com/openfga/openfga/pkg/storage"
	"github.com/openfga/openfga/pkg/storage/cache/keys"
	"github.com/openfga/openfga/pkg/typesystem"

	"github.com/openfga/openfga/verifharness/conv"
	"github.com/openfga/openfga/verifharness/m"
	"github.com/openfga/openfga/verifharness/sut"
)

// Tuning is one configuration of the strategy planner and the tuning knobs
// (property C02): every field is drawn by the generator.
type Tuning struct {
	Policy    string `json:"policy"`         // default | weight2 | recursive | bits | alternate
	Bits      []byte `json:"bits,omitempty"` // per-key choices for policy "bits"
	Breadth   uint32 `json:"breadth"`        // resolve node breadth limit
	MaxReads  uint32 `json:"max_reads"`      // max concurrent datastore reads
	Throttle  bool   `json:"throttle"`       // dispatch throttling
	Threshold uint32 `json:"threshold,omitempty"`
	FreqUs    int    `json:"freq_us,omitempty"`
	DSThrottl bool   `json:"ds_throttle,omitempty"` // datastore throttling
	// ListObjects only
	LOEngine string `json:"lo_engine,omitempty"` // classic | weighted | pipeline
	Chunk    int    `json:"chunk,omitempty"`
	Buffer   int    `json:"buffer,omitempty"`
	NumProcs int    `json:"numprocs,omitempty"`
}

// Baseline is the reference configuration the others are compared with.
func Baseline() Tuning {
	return Tuning{Policy: "default", Breadth: 10, MaxReads: 1000, LOEngine: "classic"}
}

// SelectEvent records one planner decision.
type SelectEvent struct {
	Offered []string
	Chosen  string
}

// DetPlanner is a deterministic planner.Manager: the strategy chosen for a
// key is a pure function of the policy, the key and the drawn bits.
type DetPlanner struct {
	policy string
	bits   []byte
	mu     sync.Mutex
	events []SelectEvent
	calls  int
}

func NewDetPlanner(policy string, bits []byte) *DetPlanner {
	return &DetPlanner{policy: policy, bits: bits}
}

func (p *DetPlanner) GetPlanSelector(key keys.Key) planner.Selector {
	return &detSelector{p: p, key: key}
}
func (p *DetPlanner) Stop() {}

// Events returns the recorded decisions.
func (p *DetPlanner) Events() []SelectEvent {
	p.mu.Lock()
	defer p.mu.Unlock()
	return append([]SelectEvent{}, p.events...)
}

type detSelector struct {
	p   *DetPlanner
	key keys.Key
}

func (s *detSelector) Select(resolvers map[string]*planner.PlanConfig) *planner.PlanConfig {
	names := make([]string, 0, len(resolvers))
	for n := range resolvers {
		names = append(names, n)
	}
	sort.Strings(names)
	p := s.p
	p.mu.Lock()
	defer p.mu.Unlock()
	p.calls++
	choice := "default"
	switch p.policy {
	case "weight2", "recursive":
		if _, ok := resolvers[p.policy]; ok {
			choice = p.policy
		} else if p.policy == "weight2" {
			if _, ok := resolvers["recursive"]; ok {
				choice = "recursive"
			}
		} else if _, ok := resolvers["weight2"]; ok {
			choice = "weight2"
		}
	case "bits":
		h := fnv.New32a()
		h.Write(s.key.Bytes())
		b := byte(0)
		if len(p.bits) > 0 {
			b = p.bits[int(h.Sum32())%len(p.bits)]
		}
		choice = names[int(b)%len(names)]
	case "alternate":
		choice = names[p.calls%len(names)]
	}
	if _, ok := resolvers[choice]; !ok {
		choice = names[0]
	}
	p.events = append(p.events, SelectEvent{Offered: names, Chosen: choice})
	return resolvers[choice]
}

func (s *detSelector) UpdateStats(*planner.PlanConfig, time.Duration) {}

// BuildResolver builds the ordered check resolver chain the server would
// build, with the deterministic planner and the drawn tuning.
func BuildResolver(t Tuning) (graph.CheckResolver, graph.CheckResolverCloser, *DetPlanner, error) {
	dp := NewDetPlanner(t.Policy, t.Bits)
	var throttleOpts []graph.DispatchThrottlingCheckResolverOpt
	if t.Throttle {
		throttleOpts = []graph.DispatchThrottlingCheckResolverOpt{
			graph.WithDispatchThrottlingCheckResolverConfig(graph.DispatchThrottlingCheckResolverConfig{DefaultThreshold: t.Threshold, MaxThreshold: 0}),
			graph.WithConstantRateThrottler(time.Duration(t.FreqUs)*time.Microsecond, "verif"),
		}
	}
	r, closer, err := graph.NewOrderedCheckResolvers(
		graph.WithLocalCheckerOpts(
			graph.WithResolveNodeBreadthLimit(t.Breadth),
			graph.WithMaxResolutionDepth(25),
			graph.WithPlanner(dp),
			graph.WithUpstreamTimeout(30*time.Second),
		),
		graph.WithCachedCheckResolverOpts(false),
		graph.WithDispatchThrottlingCheckResolverOpts(t.Throttle, throttleOpts...),
	).Build()
	return r, closer, dp, err
}

// LoadTypesystem reads and validates the model like the server does.
func LoadTypesystem(ds storage.OpenFGADatastore, storeID, modelID string) (*typesystem.TypeSystem, error) {
	am, err := ds.ReadAuthorizationModel(context.Background(), storeID, modelID)
	if err != nil {
		return nil, err
	}
	return typesystem.NewAndValidate(context.Background(), am)
}

// CmdCheck runs one Check through commands.NewCheckCommand (the layer below
// Server.Check, where the planner is an interface) under the given tuning.
func CmdCheck(ctx context.Context, ds storage.OpenFGADatastore, ts *typesystem.TypeSystem, storeID string, t Tuning, r m.Request) (bool, error, []SelectEvent) {
	resolver, closer, dp, err := BuildResolver(t)
	if err != nil {
		return false, fmt.Errorf("harness: build resolver: %w", err), nil
	}
	defer closer()
	cmd := commands.NewCheckCommand(ds, resolver, ts,
		commands.WithCheckCommandMaxConcurrentReads(t.MaxReads),
		commands.WithCheckDatastoreThrottler(t.DSThrottl, 1, 50*time.Microsecond),
	)
	req := sut.CheckReq(storeID, ts.GetAuthorizationModelID(), r)
	res, err := cmd.Execute(ctx, &commands.CheckCommandParams{
		StoreID: storeID, TupleKey: req.GetTupleKey(), ContextualTuples: req.GetContextualTuples(), Context: req.GetContext(),
	})
	if err != nil {
		return false, commands.CheckCommandErrorToServerError(err), dp.Events()
	}
	return res.Allowed, nil, dp.Events()
}

// CmdListObjects runs one ListObjects through commands.NewListObjectsQuery under the tuning.
func CmdListObjects(ctx context.Context, ds storage.OpenFGADatastore, ts *typesystem.TypeSystem, storeID string, t Tuning, r sut.LORequest) ([]string, error, []SelectEvent) {
	resolver, closer, dp, err := BuildResolver(t)
	if err != nil {
		return nil, fmt.Errorf("harness: build resolver: %w", err), nil
	}
	defer closer()
	var exp []string
	switch t.LOEngine {
	case "weighted":
		exp = []string{"enable-list-objects-optimizations"}
	case "pipeline":
		exp = []string{"pipeline_list_objects"}
	}
	opts := []commands.ListObjectsQueryOption{
		commands.WithListObjectsDeadline(30 * time.Second),
		commands.WithListObjectsMaxResults(1000),
		commands.WithResolveNodeLimit(25),
		commands.WithResolveNodeBreadthLimit(t.Breadth),
		commands.WithMaxConcurrentReads(t.MaxReads),
		commands.WithDispatchThrottlerConfig(threshold.Config{Enabled: false}),
		commands.WithListObjectsDatastoreThrottler(t.DSThrottl, 1, 50*time.Microsecond),
		commands.WithListObjectsPipelineEnabled(t.LOEngine == "pipeline"),
		commands.WithFeatureFlagClient(featureflags.NewDefaultClient(exp)),
	}
	if t.LOEngine == "pipeline" {
		if t.Chunk > 0 {
			opts = append(opts, commands.WithListObjectsChunkSize(t.Chunk))
		}
		if t.Buffer > 0 {
			opts = append(opts, commands.WithListObjectsBufferCapacity(t.Buffer))
		}
		if t.NumProcs > 0 {
			opts = append(opts, commands.WithListObjectsNumProcs(t.NumProcs))
		}
	}
	q, err := commands.NewListObjectsQuery(ds, resolver, storeID, opts...)
	if err != nil {
		return nil, fmt.Errorf("harness: build query: %w", err), nil
	}
	res, err := q.Execute(typesystem.ContextWithTypesystem(ctx, ts), &openfgav1.ListObjectsRequest{
		StoreId: storeID, AuthorizationModelId: ts.GetAuthorizationModelID(), Type: r.Type, Relation: r.Relation, User: r.User,
		Context: conv.Struct(r.Ctx), ContextualTuples: conv.Contextual(r.Contextual),
	})
	if err != nil {
		return nil, err, dp.Events()
	}
	out := append([]string{}, res.Objects...)
	sort.Strings(out)
	return out, nil, dp.Events()
}
