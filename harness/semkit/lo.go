package semkit

import (
	"os"
	"runtime"
	"sort"
	"strconv"
	"strings"
	"time"

	"github.com/openfga/openfga/verifharness/gen"
	"github.com/openfga/openfga/verifharness/m"
	"github.com/openfga/openfga/verifharness/refsem"
	"github.com/openfga/openfga/verifharness/sut"
)

// LOTruth is the reference answer of a ListObjects request.
type LOTruth struct {
	True       []string // objects for which the relation definitely holds
	Unknown    []string // objects whose answer hinges on an unevaluable condition
	Candidates int      // objects of the requested type in the evaluation universe
	HasUnknown bool     // some tuple of the case has an unevaluable condition under this request
}

// RefListObjects evaluates the reference semantics for every object of the
// requested type that occurs in the valid stored tuples or contextual tuples.
func RefListObjects(w gen.World, r sut.LORequest) LOTruth {
	ev := refsem.NewEval(w.Model, EvalTuples(w, r.Contextual), r.User, r.Ctx)
	var t LOTruth
	t.HasUnknown = ev.HasUnknownTuple
	for _, o := range ev.Objects() {
		typ, _ := m.SplitObject(o)
		if typ != r.Type {
			continue
		}
		t.Candidates++
		switch ev.Holds(o, r.Relation) {
		case refsem.True:
			t.True = append(t.True, o)
		case refsem.Unknown:
			t.Unknown = append(t.Unknown, o)
		}
	}
	sort.Strings(t.True)
	sort.Strings(t.Unknown)
	return t
}

// Contains reports whether the sorted slice has x.
func Contains(sorted []string, x string) bool {
	i := sort.SearchStrings(sorted, x)
	return i < len(sorted) && sorted[i] == x
}

// Dups returns the elements occurring more than once.
func Dups(xs []string) []string {
	seen := map[string]int{}
	for _, x := range xs {
		seen[x]++
	}
	var out []string
	for x, n := range seen {
		if n > 1 {
			out = append(out, x)
		}
	}
	sort.Strings(out)
	return out
}

// Watchdog runs f and reports whether it returned within d. On a time-out f
// keeps running in its goroutine (it is stuck by definition); the caller
// reports the case.
func Watchdog(d time.Duration, f func()) (returned bool) {
	done := make(chan struct{})
	go func() {
		defer close(done)
		f()
	}()
	select {
	case <-done:
		return true
	case <-time.After(d):
		return false
	}
}

// GoroutineDump returns the stacks of all goroutines whose stack mentions needle.
func GoroutineDump(needle string) string {
	buf := make([]byte, 4<<20)
	n := runtime.Stack(buf, true)
	var out []string
	for _, g := range strings.Split(string(buf[:n]), "\n\n") {
		if strings.Contains(g, needle) {
			out = append(out, g)
		}
	}
	if len(out) > 12 {
		out = out[:12]
	}
	return strings.Join(out, "\n\n")
}

// HangLimit is how long a call with a 30 s deadline may take before it is
// reported as hung (VERIF_HANG_S overrides the default of 45 s).
func HangLimit() time.Duration {
	if v, err := strconv.Atoi(os.Getenv("VERIF_HANG_S")); err == nil && v > 0 {
		return time.Duration(v) * time.Second
	}
	return 45 * time.Second
}
