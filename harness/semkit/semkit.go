// Package semkit holds helpers shared by the checks that compare query APIs
// with the reference semantics (C01-C11, C16, C20, C30, C32).
package semkit

import (
	"fmt"
	"sort"
	"strings"
	"sync"

	"github.com/openfga/openfga/verifharness/fw"
	"github.com/openfga/openfga/verifharness/gen"
	"github.com/openfga/openfga/verifharness/m"
	"github.com/openfga/openfga/verifharness/refsem"
	"github.com/openfga/openfga/verifharness/sut"
)

var (
	plainOnce sync.Once
	plainSUT  *sut.SUT
)

// Plain returns the process-wide cache-free default-engine server.
func Plain() *sut.SUT {
	plainOnce.Do(func() { plainSUT = sut.New() })
	return plainSUT
}

// SetupWorld creates a store holding the world. It returns ("","",nil) when
// the model is outside the property domain (not stratified, or rejected by
// model validation); the discard is counted.
func SetupWorld(env *fw.Env, s *sut.SUT, w gen.World) (storeID, modelID string, f *fw.Failure) {
	if !refsem.Stratified(w.Model) {
		env.Rec.Discard("not-stratified")
		return "", "", nil
	}
	storeID = s.CreateStore("verif")
	modelID, err := s.WriteModel(storeID, w.Model)
	if err != nil {
		env.Rec.Discard("model-rejected")
		return "", "", nil
	}
	if err := s.WriteRaw(storeID, w.Left); err != nil {
		return "", "", fw.Failf("harness/raw-write-failed", "raw write: %v", err)
	}
	if err := s.WriteAPI(storeID, modelID, w.Tuples); err != nil {
		return "", "", fw.Failf("harness/valid-tuple-rejected", "Write rejected tuples the reference validator accepts: %v\nmodel:\n%s\ntuples: %v", err, w.Model.DSL(), w.Tuples)
	}
	return storeID, modelID, nil
}

// ModelClasses labels the model's shape for the class histogram.
func ModelClasses(mo *m.Model) []string {
	set := map[string]bool{}
	for _, td := range mo.Types {
		for _, r := range td.Relations {
			r.Rewrite.Walk(func(n *m.Rewrite) {
				if n.Kind != m.This {
					set["rw:"+n.Kind] = true
				}
			})
			for _, re := range r.Restr {
				set["restr:"+re.Kind()] = true
				if re.Cond != "" {
					set["restr:conditional"] = true
				}
				if re.Type == td.Name && re.Rel == r.Name {
					set["recursive-userset"] = true
				}
			}
		}
	}
	return gen.SortedKeys(set)
}

// NonDirect reports whether some relation has a rewrite other than plain direct assignment.
func NonDirect(mo *m.Model) bool {
	for _, td := range mo.Types {
		for _, r := range td.Relations {
			if r.Rewrite.Kind != m.This {
				return true
			}
		}
	}
	return false
}

func IsConditionError(err error) bool {
	return err != nil && strings.Contains(err.Error(), "failed to evaluate relationship condition")
}

func IsTooComplex(err error) bool {
	return err != nil && strings.Contains(err.Error(), "too complex")
}

// CompareCheck compares an observed Check outcome with the reference value.
//
// allowed=true requires the reference value True, allowed=false requires
// False (an Unknown reference value means the answer hinges on a condition
// that cannot be evaluated: the request must fail). A failed request is
// accepted when the reference value is Unknown, or when the failure is a
// condition-evaluation error and some tuple of the case really has an
// unevaluable condition under this request (the engine may evaluate a tuple's
// condition before it knows that the tuple cannot matter).
func CompareCheck(exp refsem.Outcome, hasUnknownTuple bool, allowed bool, err error) (ok bool, why string) {
	switch {
	case err != nil && exp != refsem.Unknown:
		if hasUnknownTuple && IsConditionError(err) {
			return true, ""
		}
		return false, fmt.Sprintf("reference=%v but the request failed: %v", exp, err)
	case err != nil:
		return true, ""
	case exp == refsem.Unknown:
		return false, fmt.Sprintf("reference=U (answer depends on a condition that cannot be evaluated) but allowed=%v was returned", allowed)
	case allowed != (exp == refsem.True):
		return false, fmt.Sprintf("reference=%v but allowed=%v", exp, allowed)
	}
	return true, ""
}

// EvalTuples returns the tuples the reference evaluates a request on: the
// stored tuples valid for the model plus the contextual tuples.
func EvalTuples(w gen.World, contextual []m.Tuple) []m.Tuple {
	return append(refsem.FilterValid(w.Model, append(append([]m.Tuple{}, w.Tuples...), w.Left...)), contextual...)
}

// RefCheck returns the reference value and whether any tuple's condition is
// unevaluable under the request.
func RefCheck(w gen.World, r m.Request) (refsem.Outcome, bool) {
	ev := refsem.NewEval(w.Model, EvalTuples(w, r.Contextual), r.User, r.Ctx, r.Object)
	return ev.Holds(r.Object, r.Relation), ev.HasUnknownTuple
}

func TupleStrings(ts []m.Tuple) []string {
	out := make([]string, len(ts))
	for i, t := range ts {
		out[i] = t.String()
	}
	return out
}

// Describe renders a world for failure messages.
func Describe(w gen.World) string {
	return fmt.Sprintf("model:\n%s\ntuples: %v\nleftover: %v", w.Model.DSL(), w.Tuples, w.Left)
}

// SigSwallowedConditionError: a read that yields at least one tuple whose
// condition evaluates to true drops the evaluation errors of its sibling
// tuples (storage.ConditionsFilteredTupleKeyIterator), so a request whose
// answer hinges on the unevaluable sibling gets a definite negative answer
// instead of an error.
const SigSwallowedConditionError = "C01/condition-error-swallowed-next-to-valid-sibling"

// SwallowedNextToValidSibling recognises that signature structurally: the
// reference value with every unevaluable tuple treated as absent is False, and
// some unevaluable tuple has a sibling in the same datastore read (same
// relation and same object, or same relation, object type and user) whose
// condition is absent or true.
func SwallowedNextToValidSibling(w gen.World, r m.Request) bool {
	return swallowedNextToValidSibling(w, r, refsem.False)
}

// SwallowedNextToValidSiblingGrants: the same, under an exclusion: with the
// unevaluable tuple treated as absent the subtracted set loses a member and
// the request is granted.
func SwallowedNextToValidSiblingGrants(w gen.World, r m.Request) bool {
	return swallowedNextToValidSibling(w, r, refsem.True)
}

func swallowedNextToValidSibling(w gen.World, r m.Request, answer refsem.Outcome) bool {
	ts := EvalTuples(w, r.Contextual)
	if refsem.NewEvalDroppingUnknown(w.Model, ts, r.User, r.Ctx, r.Object).Holds(r.Object, r.Relation) != answer {
		return false
	}
	return HasUnknownWithValidSibling(refsem.NewEval(w.Model, ts, r.User, r.Ctx, r.Object).TupleOutcomes())
}

// HasUnknownWithValidSibling: some unevaluable tuple shares a datastore read
// with a tuple whose condition is absent or true.
func HasUnknownWithValidSibling(outs []refsem.TupleOutcome) bool {
	for _, u := range outs {
		if u.Outcome != refsem.Unknown {
			continue
		}
		ut, _ := m.SplitObject(u.Tuple.Object)
		for _, v := range outs {
			if v.Outcome != refsem.True || v.Tuple.Relation != u.Tuple.Relation {
				continue
			}
			vt, _ := m.SplitObject(v.Tuple.Object)
			sameUser := v.Tuple.User == u.Tuple.User ||
				(m.UserType(v.Tuple.User) == m.UserType(u.Tuple.User) && (m.UserKind(v.Tuple.User) == "wildcard" || m.UserKind(u.Tuple.User) == "wildcard"))
			if v.Tuple.Object == u.Tuple.Object || (vt == ut && sameUser) {
				return true
			}
		}
	}
	return false
}

// ClassifyCheck assigns a root-cause signature to a Check mismatch (see
// known_findings.json); "" = unclassified.
func ClassifyCheck(w gen.World, r m.Request, exp refsem.Outcome, allowed bool, err error) string {
	if err == nil && !allowed && exp == refsem.Unknown && SwallowedNextToValidSibling(w, r) {
		return SigSwallowedConditionError
	}
	if err == nil && allowed && exp == refsem.Unknown && SwallowedNextToValidSiblingGrants(w, r) {
		return SigSwallowedConditionError
	}
	if err == nil && !allowed && (exp == refsem.True || exp == refsem.Unknown) && UserAndWildcardOnSameObjectNotBothEffective(w, r) {
		return SigSortedReadDedup
	}
	if err == nil && allowed && exp == refsem.False && hasDifference(w.Model) && UserAndWildcardOnSameObjectNotBothEffective(w, r) {
		// the same dropped object, in the subtracted branch of an exclusion: the request is granted
		return SigSortedReadDedup
	}
	if err == nil && allowed && exp == refsem.False && RecursiveRelationWithForeignUsersetTuple(w, r) {
		return SigRecursiveIgnoresUsersetRelation
	}
	if err == nil && !allowed && exp == refsem.True && ExclusionOverTupleCycle(w, r) {
		return SigExclusionCycleDeny
	}
	return ""
}

// SigExclusionCycleDeny: exclusion() treats "cycle detected" in the SUBTRACT
// branch as a reason to deny, although a cycle only means that this path does
// not prove membership in the subtracted set: with r0:[user:*, group#r0],
// r1: ([user:*, group#r1] but not r0) or r0 and a tuple cycle
// group:0#r0 <-> group:3#r0, Check(group:3#r1@user:1) is false although
// nobody is in r0. Pinned by TestNonStratifiableCheckQueries /
// TestExclusionCheckFuncReducer (the flag is what makes non-stratified models
// terminate with "false"), so not repaired.
const SigExclusionCycleDeny = "C01/exclusion-denies-on-cycle-in-subtract-branch"

// ExclusionOverTupleCycle recognises that signature structurally: the model
// has an exclusion and the valid tuples contain a cycle of userset / parent
// references between objects.
func ExclusionOverTupleCycle(w gen.World, r m.Request) bool {
	hasDiff := false
	for _, td := range w.Model.Types {
		for _, rel := range td.Relations {
			rel.Rewrite.Walk(func(n *m.Rewrite) {
				if n.Kind == m.Difference {
					hasDiff = true
				}
			})
		}
	}
	if !hasDiff {
		return false
	}
	adj := map[string][]string{}
	for _, t := range EvalTuples(w, r.Contextual) {
		uo, _ := m.SplitUser(t.User)
		ut, id := m.SplitObject(uo)
		if id == "*" || w.Model.Type(ut) == nil || len(w.Model.Type(ut).Relations) == 0 {
			continue
		}
		adj[t.Object] = append(adj[t.Object], uo)
	}
	state := map[string]int{}
	var visit func(n string) bool
	visit = func(n string) bool {
		state[n] = 1
		for _, nx := range adj[n] {
			if state[nx] == 1 || (state[nx] == 0 && visit(nx)) {
				return true
			}
		}
		state[n] = 2
		return false
	}
	nodes := make([]string, 0, len(adj))
	for n := range adj {
		nodes = append(nodes, n)
	}
	sort.Strings(nodes)
	for _, n := range nodes {
		if state[n] == 0 && visit(n) {
			return true
		}
	}
	return false
}

// SigRecursiveIgnoresUsersetRelation: for a relation T#r that allows its own
// userset (T#r) and another userset of the same type (T#r2), the recursive
// userset fast path is handed the userset tuples of EVERY restriction and its
// mapper keeps only the userset's object, so a tuple T:a#r@T:b#r2 is followed
// as if it were T:b#r: Check grants access nobody has (model group.r0:
// [group#r0, group, group#r1]; group.r1:[user]; tuples group:0#r0@group:0,
// group:1#r0@group:0#r1 -> Check(group:1#r0@group:0) = true).
const SigRecursiveIgnoresUsersetRelation = "C01/recursive-userset-fast-path-ignores-userset-relation"

// RecursiveRelationWithForeignUsersetTuple recognises that signature
// structurally: some valid tuple T:a#r@T:b#r2 with r2 != r sits on a relation
// whose restrictions include its own userset T#r.
func RecursiveRelationWithForeignUsersetTuple(w gen.World, r m.Request) bool {
	for _, t := range EvalTuples(w, r.Contextual) {
		if m.UserKind(t.User) != "userset" {
			continue
		}
		ot, _ := m.SplitObject(t.Object)
		uo, ur := m.SplitUser(t.User)
		ut, _ := m.SplitObject(uo)
		if ut != ot || ur == t.Relation {
			continue
		}
		rel := w.Model.Relation(ot, t.Relation)
		if rel == nil {
			continue
		}
		for _, re := range rel.Restr {
			if re.Type == ot && re.Rel == t.Relation {
				return true
			}
		}
	}
	return false
}

// SigSortedReadDedup: CombinedTupleReader.ReadStartingWithUser with sorted
// results merges through OrderedCombinedIterator keyed by object id, which keeps
// only the first tuple per object BEFORE the validity and condition filters
// run. With a user filter {user:x, user:*} two tuples can share the object; if
// the first one is invalid for the model or its condition is false/unevaluable
// the object is dropped although the second tuple grants access (weight-2 and
// recursive fast paths).
const SigSortedReadDedup = "C01/sorted-read-keeps-first-tuple-per-object-before-filtering"

// UserAndWildcardOnSameObjectNotBothEffective recognises that signature
// structurally: some (object, relation) holds both a tuple for the request's
// user and one for the typed wildcard of its type (stored incl. left-overs, or
// contextual), and not both are effective (valid for the model with a
// condition that is absent or true).
func UserAndWildcardOnSameObjectNotBothEffective(w gen.World, r m.Request) bool {
	if m.UserKind(r.User) != "object" {
		return false
	}
	wild := m.UserType(r.User) + ":*"
	all := append(append(append([]m.Tuple{}, w.Tuples...), w.Left...), r.Contextual...)
	type pair struct{ user, wild *m.Tuple }
	by := map[string]*pair{}
	for i := range all {
		t := &all[i]
		k := t.Object + "#" + t.Relation
		if by[k] == nil {
			by[k] = &pair{}
		}
		if t.User == r.User {
			by[k].user = t
		}
		if t.User == wild {
			by[k].wild = t
		}
	}
	effective := func(t *m.Tuple) bool {
		if refsem.ValidForRead(w.Model, *t) != refsem.OK {
			return false
		}
		if t.Cond == "" {
			return true
		}
		c := w.Model.Cond(t.Cond)
		return c != nil && refsem.EvalCondition(c, r.Ctx, t.Ctx) == refsem.True
	}
	for _, p := range by {
		if p.user != nil && p.wild != nil && !(effective(p.user) && effective(p.wild)) {
			return true
		}
	}
	return false
}

// ExclusionBelow: some relation reachable from object#relation (through computed relations,
// tuple-to-usersets and userset restrictions), other than the root operator of the queried relation
// itself, is an exclusion.
func ExclusionBelow(mo *m.Model, object, relation string) bool {
	typ, _ := m.SplitObject(object)
	type rk struct{ typ, rel string }
	seen := map[rk]bool{}
	found := false
	var visit func(typ, rel string, root bool)
	visit = func(typ, rel string, root bool) {
		k := rk{typ, rel}
		r := mo.Relation(typ, rel)
		if r == nil || seen[k] {
			return
		}
		seen[k] = true
		r.Rewrite.Walk(func(n *m.Rewrite) {
			switch n.Kind {
			case m.Difference:
				if !(root && n == r.Rewrite) {
					found = true
				}
			case m.Computed:
				visit(typ, n.Rel, false)
			case m.TTU:
				if ts := mo.Relation(typ, n.Tupleset); ts != nil {
					for _, re := range ts.Restr {
						visit(re.Type, n.Rel, false)
					}
				}
			}
		})
		for _, re := range r.Restr {
			if re.Rel != "" {
				visit(re.Type, re.Rel, false)
			}
		}
	}
	visit(typ, relation, true)
	return found
}

// ExclusionGrantThroughSortedReadDedup: the structural precondition of the grant variant of
// SigSortedReadDedup (an exclusion in the model and a user/wildcard pair on one object#relation of
// which not both are effective).
func ExclusionGrantThroughSortedReadDedup(w gen.World, r m.Request) bool {
	return hasDifference(w.Model) && UserAndWildcardOnSameObjectNotBothEffective(w, r)
}

// HasExclusion reports whether any relation of the model uses an exclusion.
func HasExclusion(mo *m.Model) bool { return hasDifference(mo) }

func hasDifference(mo *m.Model) bool {
	found := false
	for _, td := range mo.Types {
		for _, rel := range td.Relations {
			rel.Rewrite.Walk(func(n *m.Rewrite) {
				if n.Kind == m.Difference {
					found = true
				}
			})
		}
	}
	return found
}

// SortedSet returns the sorted distinct strings.
func SortedSet(xs []string) []string {
	set := map[string]bool{}
	for _, x := range xs {
		set[x] = true
	}
	out := make([]string, 0, len(set))
	for x := range set {
		out = append(out, x)
	}
	sort.Strings(out)
	return out
}

// SigV2EvaluatesInvalidTuple: the weighted-graph Check engine evaluates the
// condition of a stored tuple that is NOT valid for the model (e.g. a userset
// user on a tupleset relation, left over from another model) instead of
// ignoring the tuple, and fails the request with a condition-evaluation error
// (validation class, so the server does not fall back to the default engine).
const SigV2EvaluatesInvalidTuple = "C03/weighted-engine-evaluates-condition-of-invalid-stored-tuple"

// ClassifyV2Error recognises that signature: the request failed with a
// condition-evaluation error although no VALID tuple has an unevaluable
// condition, and some invalid stored tuple carries a condition.
func ClassifyV2Error(w gen.World, err error, validUnknown bool) string {
	if !IsConditionError(err) || validUnknown {
		return ""
	}
	for _, t := range w.Left {
		if t.Cond != "" {
			return SigV2EvaluatesInvalidTuple
		}
	}
	return ""
}
