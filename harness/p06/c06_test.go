// Package p06 checks property C06: ListUsers returns exactly the permitted users.
//
// Statement: every user, type wildcard or userset returned by ListUsers holds
// the relation on the object when checked individually, no entry is returned
// twice, and every entry matches the requested filter type (and relation, for
// userset filters). When neither the result limit nor the deadline applies,
// every concrete user of the filter type that appears in the data and holds the
// relation is returned, either explicitly or through a returned wildcard of its
// type.
//
// Oracle: the independent three-valued least-fixpoint evaluator (refsem), one
// evaluation per candidate subject. What a returned wildcard means is taken
// from the API documentation of ListUsers: "In cases where a type-bound public
// access result is returned (e.g. user:*), it cannot be inferred that all
// subjects of that type have a relation to the object; it is possible that
// negations exist and checks should still be queried on individual subjects".
// So a returned `T:*` is checked as the subject `T:*` itself (it holds iff a
// `T:*` tuple grants it and no `T:*` tuple takes it away), it is NOT read as
// "every T holds". The response has no field for excluded users, so nothing
// is asserted about them beyond soundness of the explicitly returned entries.
package p06

import (
	"context"
	"fmt"
	"sort"
	"testing"
	"time"

	openfgav1 "github.com/openfga/api/proto/openfga/v1"
	"pgregory.net/rapid"

	"github.com/openfga/openfga/verifharness/conv"
	"github.com/openfga/openfga/verifharness/fw"
	"github.com/openfga/openfga/verifharness/gen"
	"github.com/openfga/openfga/verifharness/m"
	"github.com/openfga/openfga/verifharness/refsem"
	"github.com/openfga/openfga/verifharness/semkit"
)

// Query is one (object, relation, context, contextual tuples) combination that
// is asked once per user filter.
type Query struct {
	Object     string         `json:"object"`
	Relation   string         `json:"relation"`
	Ctx        map[string]any `json:"ctx,omitempty"`
	Contextual []m.Tuple      `json:"contextual,omitempty"`
	Filters    []string       `json:"filters"` // "type" or "type#relation"
}

type Case struct {
	World   gen.World `json:"world"`
	Queries []Query   `json:"queries"`
}

// Signatures of the clauses of the property.
const (
	sigFilter     = "C06/entry-does-not-match-filter"
	sigDuplicate  = "C06/duplicate-entry"
	sigUnsound    = "C06/returned-entry-does-not-hold"
	sigMissing    = "C06/permitted-user-not-returned"
	sigError      = "C06/unexpected-error"
	slowResponse  = 2 * time.Second
	maxContextual = 3
)

func worldOpts() gen.Opts {
	o := gen.DefaultOpts()
	if fw.TierIsThorough() {
		o.MaxTuples = 24
		o.MaxIDs = 4
	}
	return o
}

// allFilters lists every user filter of the model: each type, each type#relation.
func allFilters(mo *m.Model) []string {
	var out []string
	for _, td := range mo.Types {
		out = append(out, td.Name)
	}
	for _, td := range mo.Types {
		for _, r := range td.Relations {
			out = append(out, td.Name+"#"+r.Name)
		}
	}
	return out
}

func genCase(t *rapid.T) Case {
	o := worldOpts()
	var w gen.World
	switch rapid.IntRange(0, 4).Draw(t, "family") {
	case 4:
		w = setAlgebraWorld(t, o) // nested set operations over wildcard-bearing leaves
	case 0:
		w = gen.AnyWorld(t, o) // the shared generator G (generic worlds and the fast-path families)
	case 1:
		w = gen.CycleWorld(t, o) // recursive relations over densely linked objects
	default:
		w = boostedWorld(t, o) // same space, weights on wildcards under set operators (boost_test.go)
	}
	filters := allFilters(w.Model)
	c := Case{World: w}
	n := rapid.IntRange(2, 5).Draw(t, "nQueries")
	for i := 0; i < n; i++ {
		r := gen.RequestFor(t, w, o) // object biased towards the data; the drawn subject is not used
		q := Query{Object: r.Object, Relation: r.Relation, Ctx: r.Ctx}
		// two thirds of the queries go to a relation with a non-direct rewrite (the NT rule needs one)
		if nd := nonDirectRelations(w.Model, r.Object); len(nd) > 0 && rapid.IntRange(0, 2).Draw(t, "preferNonDirect") > 0 {
			q.Relation = nd[rapid.IntRange(0, len(nd)-1).Draw(t, "nonDirectRel")]
		}
		if rapid.IntRange(0, 2).Draw(t, "withContextual") == 0 {
			q.Contextual = gen.Contextual(t, w, o, maxContextual)
		}
		for _, f := range filters {
			if rapid.IntRange(0, 9).Draw(t, "useFilter") < 7 {
				q.Filters = append(q.Filters, f)
			}
		}
		if len(q.Filters) == 0 {
			q.Filters = []string{filters[rapid.IntRange(0, len(filters)-1).Draw(t, "oneFilter")]}
		}
		c.Queries = append(c.Queries, q)
	}
	return c
}

func nonDirectRelations(mo *m.Model, object string) []string {
	typ, _ := m.SplitObject(object)
	td := mo.Type(typ)
	if td == nil {
		return nil
	}
	var out []string
	for _, r := range td.Relations {
		if r.Rewrite.Kind != m.This {
			out = append(out, r.Name)
		}
	}
	return out
}

func userString(u *openfgav1.User) string {
	switch x := u.GetUser().(type) {
	case *openfgav1.User_Object:
		return x.Object.GetType() + ":" + x.Object.GetId()
	case *openfgav1.User_Wildcard:
		return x.Wildcard.GetType() + ":*"
	case *openfgav1.User_Userset:
		return x.Userset.GetType() + ":" + x.Userset.GetId() + "#" + x.Userset.GetRelation()
	}
	return fmt.Sprintf("<unknown user %v>", u)
}

// matchesFilter: a type filter admits objects and the typed wildcard of that
// type; a type#relation filter admits usersets of that type and relation.
func matchesFilter(e, ftype, frel string) bool {
	if m.UserType(e) != ftype {
		return false
	}
	kind := m.UserKind(e)
	if frel == "" {
		return kind == "object" || kind == "wildcard"
	}
	_, r := m.SplitUser(e)
	return kind == "userset" && r == frel
}

// ---- structure of a query (class labels only; never used by the oracle) ----

type rk struct{ typ, rel string }

// reach: the type#relation pairs the value of typ#rel can depend on.
func reach(mo *m.Model, typ, rel string) map[rk]bool {
	seen := map[rk]bool{}
	var visit func(k rk)
	visit = func(k rk) {
		if seen[k] {
			return
		}
		r := mo.Relation(k.typ, k.rel)
		if r == nil {
			return
		}
		seen[k] = true
		r.Rewrite.Walk(func(n *m.Rewrite) {
			switch n.Kind {
			case m.This:
				for _, re := range r.Restr {
					if re.Rel != "" {
						visit(rk{re.Type, re.Rel})
					}
				}
			case m.Computed:
				visit(rk{k.typ, n.Rel})
			case m.TTU:
				if ts := mo.Relation(k.typ, n.Tupleset); ts != nil {
					seen[rk{k.typ, n.Tupleset}] = true
					for _, re := range ts.Restr {
						visit(rk{re.Type, n.Rel})
					}
				}
			}
		})
	}
	visit(rk{typ, rel})
	return seen
}

type shape struct {
	nonDirect, hasDiff, hasInter bool
	nestedDiff                   bool            // an exclusion other than the root operator of the queried relation's own rewrite is reachable
	diffUnderDiff                bool            // some reachable exclusion has another exclusion inside its base or subtract operand
	diffBehindEdge               bool            // an exclusion sits in a relation that is reached through a userset restriction or a tuple-to-userset
	wildcardTuple                map[string]bool // user type -> a reachable wildcard tuple of that type exists
	cyclic                       bool
	cycleUnderSubtract           bool // a tuple cycle is reachable from the subtract branch of a reachable exclusion
}

func queryShape(mo *m.Model, ts []m.Tuple, q Query) shape {
	ot, _ := m.SplitObject(q.Object)
	sh := shape{wildcardTuple: map[string]bool{}}
	if r := mo.Relation(ot, q.Relation); r != nil {
		sh.nonDirect = r.Rewrite.Kind != m.This
	}
	rs := reach(mo, ot, q.Relation)
	for k := range rs {
		if r := mo.Relation(k.typ, k.rel); r != nil {
			r.Rewrite.Walk(func(n *m.Rewrite) {
				if n.Kind == m.Difference {
					sh.hasDiff = true
					if !(k == rk{ot, q.Relation} && n == r.Rewrite) {
						sh.nestedDiff = true
					}
				}
				if n.Kind == m.Intersection {
					sh.hasInter = true
				}
			})
		}
	}
	// how the reachable exclusions are consumed (the recorded findings live on two of these shapes)
	var containsDiff func(typ string, rw *m.Rewrite, seen map[rk]bool) bool
	containsDiff = func(typ string, rw *m.Rewrite, seen map[rk]bool) bool {
		found := false
		rw.Walk(func(n *m.Rewrite) {
			switch n.Kind {
			case m.Difference:
				found = true
			case m.Computed:
				k := rk{typ, n.Rel}
				if r := mo.Relation(typ, n.Rel); r != nil && !seen[k] {
					seen[k] = true
					if containsDiff(typ, r.Rewrite, seen) {
						found = true
					}
				}
			}
		})
		return found
	}
	for k := range rs {
		r := mo.Relation(k.typ, k.rel)
		if r == nil {
			continue
		}
		r.Rewrite.Walk(func(n *m.Rewrite) {
			if n.Kind == m.Difference {
				for _, ch := range n.Children {
					if containsDiff(k.typ, ch, map[rk]bool{}) {
						sh.diffUnderDiff = true
					}
				}
			}
			if n.Kind == m.TTU {
				for _, re := range mo.Relation(k.typ, n.Tupleset).Restr {
					if tr := mo.Relation(re.Type, n.Rel); tr != nil && containsDiff(re.Type, tr.Rewrite, map[rk]bool{}) {
						sh.diffBehindEdge = true
					}
				}
			}
		})
		for _, re := range r.Restr {
			if re.Rel != "" {
				if tr := mo.Relation(re.Type, re.Rel); tr != nil && containsDiff(re.Type, tr.Rewrite, map[rk]bool{}) {
					sh.diffBehindEdge = true
				}
			}
		}
	}
	byNode := map[string][]m.Tuple{}
	objs := map[string]bool{q.Object: true}
	for _, t := range ts {
		byNode[t.Object+"#"+t.Relation] = append(byNode[t.Object+"#"+t.Relation], t)
		objs[t.Object] = true
		tt, _ := m.SplitObject(t.Object)
		if m.UserKind(t.User) == "wildcard" && rs[rk{tt, t.Relation}] {
			sh.wildcardTuple[m.UserType(t.User)] = true
		}
	}
	// cycle among the object#relation nodes reachable from the queried node
	subEdges := func(node string, rw *m.Rewrite) []string { // successors contributed by one rewrite subtree
		o, _ := m.SplitUser(node)
		var out []string
		rw.Walk(func(n *m.Rewrite) {
			switch n.Kind {
			case m.This:
				for _, t := range byNode[node] {
					if m.UserKind(t.User) == "userset" {
						out = append(out, t.User)
					}
				}
			case m.Computed:
				out = append(out, o+"#"+n.Rel)
			case m.TTU:
				for _, t := range byNode[o+"#"+n.Tupleset] {
					if m.UserKind(t.User) == "object" && mo.Relation(m.UserType(t.User), n.Rel) != nil {
						out = append(out, t.User+"#"+n.Rel)
					}
				}
			}
		})
		return out
	}
	relOf := func(node string) *m.Relation {
		o, rel := m.SplitUser(node)
		typ, _ := m.SplitObject(o)
		return mo.Relation(typ, rel)
	}
	edges := func(node string) []string {
		if r := relOf(node); r != nil {
			return subEdges(node, r.Rewrite)
		}
		return nil
	}
	// reachesCycle: a cycle is reachable from the start nodes
	reachesCycle := func(starts []string) bool {
		color := map[string]int{}
		found := false
		var dfs func(n string)
		dfs = func(n string) {
			color[n] = 1
			for _, nx := range edges(n) {
				switch color[nx] {
				case 0:
					dfs(nx)
				case 1:
					found = true
				}
			}
			color[n] = 2
		}
		for _, st := range starts {
			if color[st] == 0 {
				dfs(st)
			}
		}
		return found
	}
	start := q.Object + "#" + q.Relation
	sh.cyclic = reachesCycle([]string{start})
	if sh.cyclic && sh.hasDiff {
		// is a cycle reachable from the subtract branch of some reachable exclusion?
		seen := map[string]bool{}
		var visit func(n string)
		visit = func(n string) {
			if seen[n] {
				return
			}
			seen[n] = true
			if r := relOf(n); r != nil {
				r.Rewrite.Walk(func(d *m.Rewrite) {
					if d.Kind == m.Difference && reachesCycle(subEdges(n, d.Children[1])) {
						sh.cycleUnderSubtract = true
					}
				})
			}
			for _, nx := range edges(n) {
				visit(nx)
			}
		}
		visit(start)
	}
	return sh
}

// concreteCandidates: the concrete objects of type ftype that appear in the
// data (as tuple object, as tuple user, or as the object part of a userset user).
func concreteCandidates(ts []m.Tuple, ftype string) []string {
	set := map[string]bool{}
	add := func(o string) {
		if t, id := m.SplitObject(o); t == ftype && id != "*" && id != "" {
			set[o] = true
		}
	}
	for _, t := range ts {
		add(t.Object)
		uo, _ := m.SplitUser(t.User)
		add(uo)
	}
	return gen.SortedKeys(set)
}

// usersetCandidates: usersets of ftype#frel that literally occur as tuple users.
func usersetCandidates(ts []m.Tuple, ftype, frel string) []string {
	set := map[string]bool{}
	for _, t := range ts {
		if m.UserKind(t.User) == "userset" && matchesFilter(t.User, ftype, frel) {
			set[t.User] = true
		}
	}
	return gen.SortedKeys(set)
}

// individualCheck reports what Server.Check answers for the subject (shown in
// failure messages only; the oracle is the reference evaluator).
func individualCheck(storeID, modelID string, q Query, subject string) string {
	allowed, err := semkit.Plain().Check(context.Background(), storeID, modelID, m.Request{Object: q.Object, Relation: q.Relation, User: subject, Ctx: q.Ctx, Contextual: q.Contextual})
	if err != nil {
		return fmt.Sprintf("Server.Check fails: %v", err)
	}
	return fmt.Sprintf("Server.Check allowed=%v", allowed)
}

func describe(c Case, q Query, filter string) string {
	return fmt.Sprintf("ListUsers(object=%s relation=%s filter=%s ctx=%v contextual=%v)\n%s",
		q.Object, q.Relation, filter, q.Ctx, q.Contextual, semkit.Describe(c.World))
}

func check(env *fw.Env, c Case) *fw.Failure {
	s := semkit.Plain()
	storeID, modelID, f := semkit.SetupWorld(env, s, c.World)
	if f != nil || storeID == "" {
		return f
	}
	mo := c.World.Model
	classSet := map[string]bool{}
	for _, cl := range semkit.ModelClasses(mo) {
		classSet[cl] = true
	}
	if len(c.World.Left) > 0 {
		classSet["leftover-tuples"] = true
	}
	nontrivial := false
	var sample map[string]any
	requests := 0
	// A mismatch whose root cause is recorded as an open finding is counted and
	// the rest of the case is still checked (otherwise a frequent known defect
	// would hide everything else in the case). A replayed case reports it.
	known := func(f *fw.Failure) bool {
		if !env.Replay && fw.IsKnown(f.Signature) {
			env.Rec.Known(f.Signature)
			return true
		}
		return false
	}

	for _, q := range c.Queries {
		ts := semkit.EvalTuples(c.World, q.Contextual)
		evals := map[string]*refsem.Eval{}
		ref := func(subject string) refsem.Outcome {
			e, ok := evals[subject]
			if !ok {
				e = refsem.NewEval(mo, ts, subject, q.Ctx, q.Object)
				evals[subject] = e
			}
			return e.Holds(q.Object, q.Relation)
		}
		probe := refsem.NewEval(mo, ts, "user:*", q.Ctx, q.Object)
		hasUnknown := probe.HasUnknownTuple
		sh := queryShape(mo, ts, q)
		ot, oid := m.SplitObject(q.Object)
		if len(q.Contextual) > 0 {
			classSet["with-contextual"] = true
		}
		if hasUnknown {
			classSet["unknown-condition-tuple"] = true
		}
		if sh.cyclic {
			classSet["cyclic-data"] = true
		}
		if sh.cycleUnderSubtract {
			classSet["cycle-under-subtract"] = true
		}

		for _, filter := range q.Filters {
			ftype, frel := m.SplitUser(filter)
			requests++
			start := time.Now()
			resp, err := s.Srv.ListUsers(context.Background(), &openfgav1.ListUsersRequest{
				StoreId: storeID, AuthorizationModelId: modelID,
				Object: &openfgav1.Object{Type: ot, Id: oid}, Relation: q.Relation,
				UserFilters:      []*openfgav1.UserTypeFilter{{Type: ftype, Relation: frel}},
				ContextualTuples: conv.TupleKeys(q.Contextual), Context: conv.Struct(q.Ctx),
			})
			if time.Since(start) > slowResponse {
				// the deadline (3 s) may have cut the answer short: completeness is not decidable
				env.Rec.Inconclusive()
				return nil
			}
			if frel == "" {
				classSet["filter:type"] = true
			} else {
				classSet["filter:userset"] = true
			}
			if err != nil {
				switch {
				case semkit.IsTooComplex(err):
					env.Rec.Add("depth_excluded", 1)
					classSet["error:too-complex"] = true
				case semkit.IsConditionError(err) && hasUnknown:
					// the answer may hinge on a condition that cannot be evaluated
					classSet["error:condition"] = true
				default:
					classSet["error:other"] = true
					if f := fw.Failf(sigError, "the request is valid (unevaluable-condition tuple present: %v) but it failed: %v\n%s", hasUnknown, err, describe(c, q, filter)); !known(f) {
						return f
					}
				}
				continue
			}

			// ---- soundness ----
			var got []string
			for _, u := range resp.GetUsers() {
				got = append(got, userString(u))
			}
			sort.Strings(got)
			inResult := map[string]bool{}
			for _, e := range got {
				if inResult[e] {
					if f := fw.Failf(sigDuplicate, "entry %s is returned twice: %v\n%s", e, got, describe(c, q, filter)); !known(f) {
						return f
					}
				}
				inResult[e] = true
			}
			for _, e := range got {
				if !matchesFilter(e, ftype, frel) {
					if f := fw.Failf(filterSignature(e, ftype, frel), "entry %s does not match the filter %s; result %v\n%s", e, filter, got, describe(c, q, filter)); !known(f) {
						return f
					}
				}
			}
			for _, e := range got {
				switch ref(e) {
				case refsem.False:
					if f := fw.Failf(unsoundSignature(e, sh), "entry %s is returned but the relation does not hold for it (reference=F, %s); result %v\n%s", e, individualCheck(storeID, modelID, q, e), got, describe(c, q, filter)); !known(f) {
						return f
					}
				case refsem.Unknown:
					// only possible when a tuple has an unevaluable condition; accepted (see the task's oracle)
					classSet["returned-entry-hinges-on-unevaluable-condition"] = true
				}
				if m.UserKind(e) == "wildcard" {
					classSet["wildcard-in-result"] = true
				}
			}

			// ---- completeness (limit 1000 and deadline 3 s cannot apply: the data has < 50 tuples) ----
			truth := 0
			if frel == "" {
				wild := inResult[ftype+":*"]
				for _, u := range concreteCandidates(ts, ftype) {
					switch ref(u) {
					case refsem.True:
						truth++
						if !inResult[u] && !wild {
							if f := fw.Failf(missingSignature(u, sh), "user %s appears in the data and holds the relation (reference=T, %s) but is neither returned nor covered by %s:*; result %v\n%s", u, individualCheck(storeID, modelID, q, u), ftype, got, describe(c, q, filter)); !known(f) {
								return f
							}
						}
					case refsem.Unknown:
						classSet["candidate-hinges-on-unevaluable-condition"] = true
					}
				}
				if ref(ftype+":*") == refsem.True {
					truth++
				}
			} else {
				// Weaker, separately labelled expectation (the completeness clause of the
				// statement speaks about concrete users only): usersets of the filter's
				// type#relation that literally occur as tuple users, and the queried
				// userset itself, observed but not asserted.
				cands := usersetCandidates(ts, ftype, frel)
				if ot == ftype && q.Relation == frel {
					cands = append(cands, q.Object+"#"+q.Relation)
				}
				for _, u := range semkit.SortedSet(cands) {
					if ref(u) == refsem.True {
						if u != q.Object+"#"+q.Relation { // the queried userset itself is no evidence of a non-trivial truth
							truth++
						}
						if !inResult[u] {
							env.Rec.Add("observed:userset-with-reference-true-not-returned", 1)
						} else {
							env.Rec.Add("observed:userset-with-reference-true-returned", 1)
						}
					}
				}
			}

			// ---- evidence ----
			if sh.hasDiff && sh.wildcardTuple[ftype] {
				classSet["exclusion-with-wildcard"] = true
			}
			if sh.hasInter && sh.wildcardTuple[ftype] {
				classSet["intersection-with-wildcard"] = true
			}
			if len(got) > 0 {
				classSet["result-nonempty"] = true
			}
			if len(got) >= 2 {
				classSet["result>=2"] = true
			}
			// NT (DESIGN.md C06): the truth has at least one user and the queried
			// relation involves a non-direct rewrite.
			if truth > 0 && sh.nonDirect {
				if !nontrivial {
					sample = map[string]any{"model": mo.DSL(), "tuples": semkit.TupleStrings(c.World.Tuples), "leftover": semkit.TupleStrings(c.World.Left),
						"request": fmt.Sprintf("%s#%s filter=%s ctx=%v contextual=%v", q.Object, q.Relation, filter, q.Ctx, semkit.TupleStrings(q.Contextual)), "result": got}
				}
				nontrivial = true
				if sh.cyclic {
					classSet["nt:cyclic-data"] = true
				}
				if sh.hasDiff {
					classSet["nt:exclusion"] = true
				}
				if sh.hasInter {
					classSet["nt:intersection"] = true
				}
			}
		}
	}
	env.Rec.Add("requests", requests)
	env.Rec.Case(c, nontrivial, sample, gen.SortedKeys(classSet)...)
	return nil
}

// filterSignature narrows a filter mismatch by what was returned for what kind of filter.
func filterSignature(e, ftype, frel string) string {
	fk := "type"
	if frel != "" {
		fk = "userset"
	}
	what := m.UserKind(e)
	if m.UserType(e) != ftype {
		what += "-of-other-type"
	}
	return sigFilter + "/" + what + "-for-" + fk + "-filter"
}

// unsoundSignature narrows "returned but does not hold" by the kind of entry
// and the operators that can be involved.
func unsoundSignature(e string, sh shape) string {
	return sigUnsound + "/" + m.UserKind(e) + opsSuffix(sh)
}

func missingSignature(u string, sh shape) string {
	return sigMissing + opsSuffix(sh)
}

// opsSuffix names the most specific structural feature of the query that the
// bookkeeping of ListUsers treats specially: an exclusion whose result feeds
// another operator, userset or TTU ("nested": its negative markers travel
// upwards), a top-level exclusion whose subtract branch runs into a tuple
// cycle, any other top-level exclusion, an intersection, cyclic data. "nested" is
// reserved for the two shapes the recorded findings live on: an exclusion inside
// the base or subtract operand of another exclusion, and an exclusion in a
// relation reached through a userset restriction or a tuple-to-userset; an
// exclusion that only feeds an intersection or union gets its own suffix.
func opsSuffix(sh shape) string {
	switch {
	case sh.nestedDiff && (sh.diffUnderDiff || sh.diffBehindEdge):
		return "/nested-exclusion"
	case sh.nestedDiff:
		return "/exclusion-under-intersection-or-union"
	case sh.cycleUnderSubtract:
		return "/exclusion-with-cycle-under-subtract"
	case sh.hasDiff:
		return "/top-level-exclusion"
	case sh.hasInter:
		return "/intersection"
	case sh.cyclic:
		return "/cycle"
	}
	return ""
}

func TestC06(t *testing.T) { fw.Run(t, "C06", genCase, check) }
