package p06

import (
	"fmt"

	"pgregory.net/rapid"

	"github.com/openfga/openfga/verifharness/fw"
	"github.com/openfga/openfga/verifharness/gen"
	"github.com/openfga/openfga/verifharness/m"
)

// A second model family inside the C01 input space with the weights moved to
// the shapes ListUsers has bespoke bookkeeping for: typed wildcards under
// intersection and exclusion (also nested: an exclusion under the subtract
// branch of another exclusion), usersets (group#member, recursive, and a group
// relation that is itself an exclusion), computed chains on one object and a
// recursive parent TTU. The shared generator produces these shapes too, but
// rarely together (measured: exclusion-with-wildcard in about 1% of its cases).
// Everything is a rapid draw; stratified by construction (computed and TTU
// targets are lower-index relations; the only recursion is positive).

func chance(t *rapid.T, label string, pct int) bool {
	return rapid.IntRange(0, 99).Draw(t, label) < pct
}

func boostedModel(t *rapid.T) *m.Model {
	mo := &m.Model{Types: []m.TypeDef{{Name: "user"}}}
	hasEmp := chance(t, "bEmployee", 20)
	if hasEmp {
		mo.Types = append(mo.Types, m.TypeDef{Name: "employee"})
	}
	cond := ""
	if chance(t, "bCond", 25) {
		mo.Conds = []m.Condition{{Name: "c0", Params: []m.Param{{Name: "x", Type: "int"}}, Expr: m.Cmp("<", m.Var("x"), m.Lit("int", 10))}}
		cond = "c0"
	}
	withCond := func() string {
		if cond != "" && chance(t, "bRestrCond", 25) {
			return cond
		}
		return ""
	}
	dedup := func(rs []m.Restriction) []m.Restriction {
		seen := map[string]bool{}
		var out []m.Restriction
		for _, r := range rs {
			if !seen[r.String()] {
				seen[r.String()] = true
				out = append(out, r)
			}
		}
		return out
	}

	// group
	member := []m.Restriction{{Type: "user", Cond: withCond()}}
	if chance(t, "bMemberWild", 40) {
		member = append(member, m.Restriction{Type: "user", Wildcard: true, Cond: withCond()})
	}
	if chance(t, "bMemberRec", 60) {
		member = append(member, m.Restriction{Type: "group", Rel: "member"})
	}
	if hasEmp && chance(t, "bMemberEmp", 30) {
		member = append(member, m.Restriction{Type: "employee"})
	}
	group := m.TypeDef{Name: "group", Relations: []m.Relation{{Name: "member", Rewrite: &m.Rewrite{Kind: m.This}, Restr: dedup(member)}}}
	hasActive := chance(t, "bGroupActive", 50)
	if hasActive {
		blocked := []m.Restriction{{Type: "user"}}
		if chance(t, "bBlockedWild", 40) {
			blocked = append(blocked, m.Restriction{Type: "user", Wildcard: true})
		}
		if chance(t, "bBlockedRec", 30) { // tuple cycles under a subtract branch
			blocked = append(blocked, m.Restriction{Type: "group", Rel: "blocked"})
		}
		group.Relations = append(group.Relations,
			m.Relation{Name: "blocked", Rewrite: &m.Rewrite{Kind: m.This}, Restr: blocked},
			m.Relation{Name: "active", Rewrite: &m.Rewrite{Kind: m.Difference, Children: []*m.Rewrite{{Kind: m.Computed, Rel: "member"}, {Kind: m.Computed, Rel: "blocked"}}}})
	}
	mo.Types = append(mo.Types, group)

	restrs := func() []m.Restriction {
		var rs []m.Restriction
		if chance(t, "bRUser", 70) {
			rs = append(rs, m.Restriction{Type: "user", Cond: withCond()})
		}
		if chance(t, "bRWild", 50) {
			rs = append(rs, m.Restriction{Type: "user", Wildcard: true, Cond: withCond()})
		}
		if hasEmp && chance(t, "bREmp", 30) {
			rs = append(rs, m.Restriction{Type: "employee"})
		}
		if hasEmp && chance(t, "bREmpWild", 25) {
			rs = append(rs, m.Restriction{Type: "employee", Wildcard: true})
		}
		if chance(t, "bRMember", 30) {
			rs = append(rs, m.Restriction{Type: "group", Rel: "member", Cond: withCond()})
		}
		if hasActive && chance(t, "bRActive", 20) {
			rs = append(rs, m.Restriction{Type: "group", Rel: "active"})
		}
		if len(rs) == 0 {
			rs = append(rs, m.Restriction{Type: "user"})
		}
		return dedup(rs)
	}

	// doc
	doc := m.TypeDef{Name: "doc"}
	hasParent := chance(t, "bParent", 60)
	if hasParent {
		doc.Relations = append(doc.Relations, m.Relation{Name: "parent", Rewrite: &m.Rewrite{Kind: m.This}, Restr: []m.Restriction{{Type: "doc"}}})
	}
	nLeaves := rapid.IntRange(2, 3).Draw(t, "bLeaves")
	var leaves []string
	for i := 0; i < nLeaves; i++ {
		n := fmt.Sprintf("l%d", i)
		leaves = append(leaves, n)
		doc.Relations = append(doc.Relations, m.Relation{Name: n, Rewrite: &m.Rewrite{Kind: m.This}, Restr: restrs()})
	}
	nRel := rapid.IntRange(1, 3).Draw(t, "bRels")
	var done []string
	for idx := 0; idx < nRel; idx++ {
		name := fmt.Sprintf("r%d", idx)
		var own []m.Restriction
		var expr func(depth int) *m.Rewrite
		leaf := func() *m.Rewrite {
			k := rapid.IntRange(0, 9).Draw(t, "bLeafKind")
			switch {
			case k < 2 && len(done) > 0:
				return &m.Rewrite{Kind: m.Computed, Rel: done[rapid.IntRange(0, len(done)-1).Draw(t, "bComputedRel")]}
			case k < 4:
				if own == nil {
					own = restrs()
				}
				return &m.Rewrite{Kind: m.This}
			case k < 6 && hasParent:
				targets := append(append([]string{}, leaves...), done...)
				return &m.Rewrite{Kind: m.TTU, Tupleset: "parent", Rel: targets[rapid.IntRange(0, len(targets)-1).Draw(t, "bTTURel")]}
			}
			return &m.Rewrite{Kind: m.Computed, Rel: leaves[rapid.IntRange(0, len(leaves)-1).Draw(t, "bLeafRel")]}
		}
		expr = func(depth int) *m.Rewrite {
			if depth <= 0 {
				return leaf()
			}
			sub := func() *m.Rewrite {
				if chance(t, "bDeeper", 40) {
					return expr(depth - 1)
				}
				return leaf()
			}
			switch k := rapid.IntRange(0, 8).Draw(t, "bOp"); {
			case k < 2:
				rw := &m.Rewrite{Kind: m.Union, Children: []*m.Rewrite{sub(), sub()}}
				return rw
			case k < 5:
				rw := &m.Rewrite{Kind: m.Intersection, Children: []*m.Rewrite{sub(), sub()}}
				if chance(t, "bThird", 20) {
					rw.Children = append(rw.Children, sub())
				}
				return rw
			default:
				return &m.Rewrite{Kind: m.Difference, Children: []*m.Rewrite{sub(), sub()}}
			}
		}
		rw := expr(rapid.IntRange(1, 3).Draw(t, "bDepth"))
		if hasParent && chance(t, "bRecursiveTTU", 25) {
			rw = &m.Rewrite{Kind: m.Union, Children: []*m.Rewrite{rw, {Kind: m.TTU, Tupleset: "parent", Rel: name}}}
		}
		doc.Relations = append(doc.Relations, m.Relation{Name: name, Rewrite: rw, Restr: own})
		done = append(done, name)
	}
	mo.Types = append(mo.Types, doc)
	return mo
}

func boostedWorld(t *rapid.T, o gen.Opts) gen.World {
	mo := boostedModel(t)
	// few ids: the bookkeeping under test needs a wildcard and concrete users of
	// the same type to meet on the same object
	o.MaxIDs = 2
	if fw.TierIsThorough() {
		o.MaxIDs = 3
	}
	v, l := gen.Tuples(t, mo, o)
	return gen.World{Model: mo, Tuples: v, Left: l}
}

// setAlgebraWorld: a third family — one object type whose leaf relations take
// users and the typed wildcard, and three derived relations that are random
// nested combinations (depth <= 3) of union / intersection / exclusion over the
// leaves and the earlier derived relations. This is where ListUsers carries
// exclusion lists of wildcard results through nested operators.
func setAlgebraWorld(t *rapid.T, o gen.Opts) gen.World {
	leaf := []m.Restriction{{Type: "user"}, {Type: "user", Wildcard: true}}
	td := m.TypeDef{Name: "doc"}
	nLeaves := rapid.IntRange(3, 4).Draw(t, "saLeaves")
	var names []string
	for i := 0; i < nLeaves; i++ {
		n := fmt.Sprintf("l%d", i)
		names = append(names, n)
		td.Relations = append(td.Relations, m.Relation{Name: n, Rewrite: &m.Rewrite{Kind: m.This}, Restr: leaf})
	}
	var tree func(depth int) *m.Rewrite
	tree = func(depth int) *m.Rewrite {
		if depth == 0 || rapid.IntRange(0, 3).Draw(t, "saLeaf") == 0 {
			return &m.Rewrite{Kind: m.Computed, Rel: names[rapid.IntRange(0, len(names)-1).Draw(t, "saRef")]}
		}
		op := []string{m.Union, m.Intersection, m.Intersection, m.Difference, m.Difference}[rapid.IntRange(0, 4).Draw(t, "saOp")]
		return &m.Rewrite{Kind: op, Children: []*m.Rewrite{tree(depth - 1), tree(depth - 1)}}
	}
	for i := 0; i < 3; i++ {
		rw := tree(rapid.IntRange(1, 3).Draw(t, "saDepth"))
		if rw.Kind == m.Computed { // keep it a set operation
			rw = &m.Rewrite{Kind: m.Intersection, Children: []*m.Rewrite{rw, tree(1)}}
		}
		n := fmt.Sprintf("e%d", i)
		td.Relations = append(td.Relations, m.Relation{Name: n, Rewrite: rw})
		names = append(names, n)
	}
	mo := &m.Model{Types: []m.TypeDef{{Name: "user"}, td}}
	var ts []m.Tuple
	for d := 0; d < 2; d++ {
		for i := 0; i < nLeaves; i++ {
			for u := 0; u < 3; u++ {
				if chance(t, "saGrant", 40) {
					ts = append(ts, m.Tuple{Object: fmt.Sprintf("doc:%d", d), Relation: fmt.Sprintf("l%d", i), User: fmt.Sprintf("user:%d", u)})
				}
			}
			if chance(t, "saWild", 35) {
				ts = append(ts, m.Tuple{Object: fmt.Sprintf("doc:%d", d), Relation: fmt.Sprintf("l%d", i), User: "user:*"})
			}
		}
	}
	return gen.World{Model: mo, Tuples: ts}
}
