package p32

import (
	"context"
	"encoding/json"
	"fmt"
	"sort"
	"strings"
	"sync"
	"testing"

	authzenv1 "github.com/openfga/api/proto/authzen/v1"
	openfgav1 "github.com/openfga/api/proto/openfga/v1"
	"google.golang.org/grpc/metadata"
	"google.golang.org/protobuf/types/known/structpb"
	"pgregory.net/rapid"

	"github.com/openfga/openfga/pkg/server"
	serverconfig "github.com/openfga/openfga/pkg/server/config"

	"github.com/openfga/openfga/verifharness/conv"
	"github.com/openfga/openfga/verifharness/fw"
	"github.com/openfga/openfga/verifharness/gen"
	"github.com/openfga/openfga/verifharness/m"
	"github.com/openfga/openfga/verifharness/refsem"
	"github.com/openfga/openfga/verifharness/semkit"
	"github.com/openfga/openfga/verifharness/sut"
)

// C32 — AuthZEN endpoints agree with the native API.
//
// A case is a world (model + tuples) plus AuthZEN-level requests. The native
// request an AuthZEN request stands for is computed here from the DOCUMENTED
// mapping (docs/authzen/README.md, the API descriptions of the authzen proto):
//
//	user     = subject.type ":" subject.id
//	object   = resource.type ":" resource.id
//	relation = action.name
//	context  = subject.properties  as subject_<k>, resource.properties as
//	           resource_<k>, action.properties as action_<k>, then the request
//	           context on top (the request context wins on a conflict)
//	batch item field = item field if present, else the top-level field
//	           (the context is replaced as a whole, not merged)
//	SubjectSearch  = ListUsers(object, relation, user filter {subject.type}),
//	           objects as {type,id}, typed wildcards as {type,"*"}; subject.id ignored
//	ResourceSearch = ListObjects(user, relation, resource.type); resource.id ignored
//	ActionSearch   = the relations of resource.type for which Check allows,
//	           errors skipped, sorted by name
//	page parameter: accepted and ignored, every result is returned
//	model: header Openfga-Authorization-Model-Id, else the latest model
//
// Oracle: differential against Server.Check / ListUsers / ListObjects of the
// SAME server and store for the mapped request (and Server.Check against the
// reference semantics R-sem):
//
//   - single Evaluation: same decision; native error <=> request error;
//   - Evaluations (no options, execute_all): one answer per item, in order; a
//     native error shows as decision=false with context.error; otherwise same
//     decision and no context.error;
//   - deny_on_first_deny / permit_on_first_permit: the answers are a prefix of
//     the items, every answered item agrees as above, processing stops exactly
//     at the first answered deny (an error counts as a deny) / permit and never
//     earlier;
//   - empty evaluations list: behaves like the single Evaluation of the
//     top-level fields;
//   - searches: equal as sets (ActionSearch also sorted).
//
// A request whose context leaves some tuple's condition unevaluable can
// legitimately end either in an error or in a definite answer depending on
// evaluation order inside the engine (see C01); for such requests an
// error-versus-answer difference between two runs of the same engine is
// tolerated and counted (label unknown-tolerated); two definite answers must
// still agree. Observed about once per 16 000 cases: a weight-2 fast path
// reads every tuple of the user on the relation, meets an unrelated tuple with
// an unevaluable condition and, depending on which side of its join finishes
// first, fails or answers false; rapid reports such a case as flaky.
//
// Not expressible in AuthZEN, hence outside the case space: userset subjects
// (request validation forbids '#' in ids; the generator replaces them by their
// object and counts them) and contextual tuples. A typed wildcard subject is
// expressible as id "*" (the documented type ":" id concatenation; the search
// results use the same form) and is kept (label subject:wildcard).
//
// NT: the batch's native decisions are mixed (some allowed, some denied) and
// some search returns a non-empty strict subset of its candidates.

type Entity struct {
	Type  string         `json:"type"`
	ID    string         `json:"id,omitempty"`
	Props map[string]any `json:"props,omitempty"`
}

type Action struct {
	Name  string         `json:"name"`
	Props map[string]any `json:"props,omitempty"`
}

// Item is one evaluation: nil fields are absent (a batch item then inherits
// the top-level field). HasCtx distinguishes an absent context from an empty one.
type Item struct {
	Subject  *Entity        `json:"subject,omitempty"`
	Resource *Entity        `json:"resource,omitempty"`
	Action   *Action        `json:"action,omitempty"`
	HasCtx   bool           `json:"has_ctx,omitempty"`
	Ctx      map[string]any `json:"ctx,omitempty"`
}

type Search struct {
	Kind      string `json:"kind"` // subject | resource | action
	Item      Item   `json:"item"`
	FilterID  string `json:"filter_id,omitempty"`  // id on the search filter: documented as ignored
	PageLimit int    `json:"page_limit,omitempty"` // documented as ignored
}

type Case struct {
	World    gen.World `json:"world"`
	Top      Item      `json:"top"`
	Items    []Item    `json:"items"`
	Searches []Search  `json:"searches,omitempty"`
	// PinModel sends the model id header; DecoyLatest writes a second, empty
	// model afterwards so that only the header selects the right model.
	PinModel    bool `json:"pin_model,omitempty"`
	DecoyLatest bool `json:"decoy_latest,omitempty"`
	// UsersetSubjects counts drawn userset subjects that were replaced by
	// their object because AuthZEN cannot express them.
	UsersetSubjects int `json:"userset_subjects,omitempty"`
}

var (
	azOnce sync.Once
	azSUT  *sut.SUT
)

// azServer is the process-wide server with the AuthZEN experimental enabled.
func azServer() *sut.SUT {
	azOnce.Do(func() { azSUT = sut.New(server.WithExperimentals(serverconfig.ExperimentalAuthZen)) })
	return azSUT
}

func worldOpts() gen.Opts {
	o := gen.DefaultOpts()
	if fw.TierIsThorough() {
		o.MaxTuples = 24
		o.MaxIDs = 4
	}
	return o
}

// ---------------------------------------------------------------- generator

func pick[T any](t *rapid.T, label string, xs []T) T {
	return xs[rapid.IntRange(0, len(xs)-1).Draw(t, label)]
}

// chance is true with probability ~pct% (in steps of 1/32). It is built from
// fair coin flips because rapid's integer ranges are heavily biased towards
// their bounds (IntRange(0,99) < 15 holds in ~45% of the draws); it shrinks
// to false.
func chance(t *rapid.T, label string, pct int) bool {
	v := 0
	for i := 0; i < 5; i++ {
		if rapid.Bool().Draw(t, label) {
			v |= 1 << i
		}
	}
	return v >= 32-(pct*32+50)/100
}

// fairInt draws 0..n-1 (n <= 32) almost uniformly from fair coin flips.
func fairInt(t *rapid.T, label string, n int) int {
	v := 0
	for i := 0; i < 5; i++ {
		if rapid.Bool().Draw(t, label) {
			v |= 1 << i
		}
	}
	return v % n
}

var prefixes = []string{"subject_", "resource_", "action_"}

func splitPrefix(k string) (prefix, rest string) {
	for _, p := range prefixes {
		if strings.HasPrefix(k, p) && len(k) > len(p) {
			return p, k[len(p):]
		}
	}
	return "", k
}

func renameVars(e *m.Expr, ren map[string]string) {
	if e == nil {
		return
	}
	if e.Kind == "var" {
		if n, ok := ren[e.Name]; ok {
			e.Name = n
		}
	}
	renameVars(e.A, ren)
	renameVars(e.B, ren)
}

func renameCtx(ctx map[string]any, ren map[string]string) map[string]any {
	if ctx == nil {
		return nil
	}
	out := map[string]any{}
	for k, v := range ctx {
		if n, ok := ren[k]; ok {
			k = n
		}
		out[k] = v
	}
	return out
}

// renameParams gives some condition parameters the names that AuthZEN
// properties map to (subject_x, resource_s, ...), consistently in the
// conditions and in the stored tuple contexts, so that properties matter.
func renameParams(t *rapid.T, w *gen.World) {
	ren := map[string]string{}
	seen := map[string]bool{}
	for _, c := range w.Model.Conds {
		for _, p := range c.Params {
			if seen[p.Name] {
				continue
			}
			seen[p.Name] = true
			if k := fairInt(t, "paramPrefix_"+p.Name, 4); k > 0 {
				ren[p.Name] = prefixes[k-1] + p.Name
			}
		}
	}
	if len(ren) == 0 {
		return
	}
	for ci := range w.Model.Conds {
		c := &w.Model.Conds[ci]
		for pi := range c.Params {
			if n, ok := ren[c.Params[pi].Name]; ok {
				c.Params[pi].Name = n
			}
		}
		renameVars(c.Expr, ren)
	}
	for i := range w.Tuples {
		w.Tuples[i].Ctx = renameCtx(w.Tuples[i].Ctx, ren)
	}
	for i := range w.Left {
		if w.Model.Cond(w.Left[i].Cond) != nil {
			w.Left[i].Ctx = renameCtx(w.Left[i].Ctx, ren)
		}
	}
}

// decoy returns a value different from v that usually flips the generator's
// conditions (x < 10, s == "a", x < y).
func decoy(v any) any {
	switch x := v.(type) {
	case float64:
		if x < 10 {
			return x + 100
		}
		return 0.0
	case string:
		if x == "a" {
			return "b"
		}
		return "a"
	case bool:
		return !x
	}
	return "decoy"
}

func sortedKeys(mp map[string]any) []string {
	out := make([]string, 0, len(mp))
	for k := range mp {
		out = append(out, k)
	}
	sort.Strings(out)
	return out
}

func setProp(mp *map[string]any, k string, v any) {
	if *mp == nil {
		*mp = map[string]any{}
	}
	(*mp)[k] = v
}

// toAZ turns a native request into a complete AuthZEN item whose documented
// mapping is that request again (plus optional noise): each prefixed context
// key is placed in the request context, in the matching properties object, or
// in both (with a different, losing value in the properties).
func toAZ(t *rapid.T, r m.Request) Item { return toAZBias(t, r, false) }

// toAZBias: with propsOnly every prefixed key travels in a properties object only.
func toAZBias(t *rapid.T, r m.Request, propsOnly bool) Item {
	so, _ := m.SplitUser(r.User)
	st, sid := m.SplitObject(so)
	rt, rid := m.SplitObject(r.Object)
	it := Item{Subject: &Entity{Type: st, ID: sid}, Resource: &Entity{Type: rt, ID: rid}, Action: &Action{Name: r.Relation}}
	ctx := map[string]any{}
	for _, k := range sortedKeys(r.Ctx) {
		v := r.Ctx[k]
		p, rest := splitPrefix(k)
		if p == "" {
			ctx[k] = v
			continue
		}
		var props *map[string]any
		switch p {
		case "subject_":
			props = &it.Subject.Props
		case "resource_":
			props = &it.Resource.Props
		default:
			props = &it.Action.Props
		}
		switch mode := fairInt(t, "place_"+k, 10); {
		case propsOnly:
			setProp(props, rest, v)
		case mode < 3:
			ctx[k] = v
		case mode < 6:
			setProp(props, rest, v)
		case mode < 9: // conflict: the request context must win
			setProp(props, rest, decoy(v))
			ctx[k] = v
		default:
			setProp(props, rest, v)
			ctx[k] = v
		}
	}
	if chance(t, "noiseProp", 10) {
		setProp(&it.Resource.Props, "noise", true)
	}
	if len(ctx) > 0 {
		it.HasCtx, it.Ctx = true, ctx
	} else if chance(t, "explicitEmptyCtx", 20) {
		it.HasCtx = true
	}
	return it
}

func genNative(t *rapid.T, w gen.World, o gen.Opts, c *Case) m.Request {
	r := gen.RequestFor(t, w, o)
	// requests drawn independently of the data are mostly denied: often ask
	// about a stored grant (same object and user, same or sibling relation)
	if len(w.Tuples) > 0 && chance(t, "fromGrant", 45) {
		tu := pick(t, "grant", w.Tuples)
		ot, _ := m.SplitObject(tu.Object)
		r.Object, r.Relation = tu.Object, tu.Relation
		if chance(t, "siblingRelation", 30) {
			r.Relation = pick(t, "siblingRel", w.Model.Type(ot).Relations).Name
		}
		switch m.UserKind(tu.User) {
		case "object":
			r.User = tu.User
		case "wildcard":
			if chance(t, "instantiateWildcard", 70) {
				r.User = fmt.Sprintf("%s:%d", m.UserType(tu.User), rapid.IntRange(0, o.MaxIDs).Draw(t, "wildID"))
			} else {
				r.User = tu.User
			}
		}
	}
	if m.UserKind(r.User) == "userset" {
		c.UsersetSubjects++
		r.User, _ = m.SplitUser(r.User)
	}
	return r
}

func genCase(t *rapid.T) Case {
	o := worldOpts()
	w := gen.AnyWorld(t, o)
	renameParams(t, &w)
	mo := w.Model
	c := Case{World: w}
	c.DecoyLatest = chance(t, "decoyLatest", 15)
	c.PinModel = c.DecoyLatest || chance(t, "pinModel", 40)

	// top-level defaults
	base := toAZ(t, genNative(t, w, o, &c))
	if chance(t, "topSubject", 55) {
		c.Top.Subject = base.Subject
	}
	if chance(t, "topResource", 45) {
		c.Top.Resource = base.Resource
	}
	if chance(t, "topAction", 35) {
		c.Top.Action = base.Action
	}
	if base.HasCtx && chance(t, "topCtx", 55) {
		c.Top.HasCtx, c.Top.Ctx = true, base.Ctx
	}

	n := rapid.IntRange(2, 6).Draw(t, "nItems")
	if chance(t, "manyItems", 20) {
		n = rapid.IntRange(7, 24).Draw(t, "nManyItems") // two-digit positions in the batch
	}
	var natives []m.Request
	for i := 0; i < n; i++ {
		r := genNative(t, w, o, &c)
		natives = append(natives, r)
		it := toAZ(t, r)
		if c.Top.Subject != nil && chance(t, "inheritSubject", 55) {
			it.Subject = nil
		}
		if c.Top.Resource != nil && chance(t, "inheritResource", 50) {
			it.Resource = nil
			// keep the request inside the model: the action must be a relation of the inherited resource's type
			if td := mo.Type(c.Top.Resource.Type); td != nil && len(td.Relations) > 0 && mo.Relation(td.Name, it.Action.Name) == nil {
				it.Action.Name = pick(t, "inheritedResourceRel", td.Relations).Name
			}
		}
		if c.Top.Action != nil && chance(t, "inheritAction", 50) {
			rt := c.Top.Resource
			if it.Resource != nil {
				rt = it.Resource
			}
			if rt != nil && mo.Relation(rt.Type, c.Top.Action.Name) != nil {
				it.Action = nil
			}
		}
		if c.Top.HasCtx {
			if chance(t, "inheritCtx", 50) {
				it.HasCtx, it.Ctx = false, nil
			} else {
				it.HasCtx = true // own context, possibly empty: replaces the top-level context
			}
		}
		// requests the native API rejects: unknown relation / unknown resource type
		if chance(t, "unknownRelation", 3) {
			it.Action = &Action{Name: "nope"}
		} else if chance(t, "unknownResourceType", 3) {
			it.Resource = &Entity{Type: "ghost", ID: "0"}
		}
		c.Items = append(c.Items, it)
	}

	ns := rapid.IntRange(1, 4).Draw(t, "nSearches")
	for i := 0; i < ns; i++ {
		var r m.Request
		if chance(t, "searchFromItem", 60) {
			r = pick(t, "searchItem", natives)
			// fresh draws for the placement of the context
		} else {
			r = genNative(t, w, o, &c)
		}
		s := Search{Kind: []string{"subject", "resource", "resource", "subject", "action"}[fairInt(t, "searchKind", 5)], Item: toAZBias(t, r, chance(t, "searchPropsOnly", 50))}
		if s.Kind == "subject" && chance(t, "otherSubjectType", 25) {
			s.Item.Subject.Type = pick(t, "filterType", mo.Types).Name
		}
		if s.Kind != "action" && chance(t, "filterID", 25) {
			s.FilterID = "9"
		}
		if chance(t, "pageLimit", 20) {
			s.PageLimit = 1
		}
		c.Searches = append(c.Searches, s)
	}
	return c
}

// ------------------------------------------------------- documented mapping

// resolve applies the documented batch defaults.
func resolve(it, top Item) Item {
	out := it
	if out.Subject == nil {
		out.Subject = top.Subject
	}
	if out.Resource == nil {
		out.Resource = top.Resource
	}
	if out.Action == nil {
		out.Action = top.Action
	}
	if !out.HasCtx {
		out.HasCtx, out.Ctx = top.HasCtx, top.Ctx
	}
	return out
}

// mergedContext applies the documented property prefixes and precedence.
func mergedContext(s, r *Entity, a *Action, it Item) map[string]any {
	out := map[string]any{}
	if s != nil {
		for k, v := range s.Props {
			out["subject_"+k] = v
		}
	}
	if r != nil {
		for k, v := range r.Props {
			out["resource_"+k] = v
		}
	}
	if a != nil {
		for k, v := range a.Props {
			out["action_"+k] = v
		}
	}
	if it.HasCtx {
		for k, v := range it.Ctx {
			out[k] = v
		}
	}
	if len(out) == 0 {
		return nil
	}
	return out
}

// native maps a complete item to the native request it stands for.
func native(it Item) m.Request {
	return m.Request{
		User:     it.Subject.Type + ":" + it.Subject.ID,
		Object:   it.Resource.Type + ":" + it.Resource.ID,
		Relation: it.Action.Name,
		Ctx:      mergedContext(it.Subject, it.Resource, it.Action, it),
	}
}

// ------------------------------------------------------------ proto builders

func pbStruct(mp map[string]any, present bool) *structpb.Struct {
	if !present {
		return nil
	}
	if mp == nil {
		mp = map[string]any{}
	}
	return conv.Struct(mp)
}

func pbSubject(e *Entity) *authzenv1.Subject {
	if e == nil {
		return nil
	}
	return &authzenv1.Subject{Type: e.Type, Id: e.ID, Properties: pbStruct(e.Props, e.Props != nil)}
}

func pbResource(e *Entity) *authzenv1.Resource {
	if e == nil {
		return nil
	}
	return &authzenv1.Resource{Type: e.Type, Id: e.ID, Properties: pbStruct(e.Props, e.Props != nil)}
}

func pbAction(a *Action) *authzenv1.Action {
	if a == nil {
		return nil
	}
	return &authzenv1.Action{Name: a.Name, Properties: pbStruct(a.Props, a.Props != nil)}
}

func pbItem(it Item) *authzenv1.EvaluationsItemRequest {
	return &authzenv1.EvaluationsItemRequest{Subject: pbSubject(it.Subject), Resource: pbResource(it.Resource), Action: pbAction(it.Action), Context: pbStruct(it.Ctx, it.HasCtx)}
}

func hasError(ctx *structpb.Struct) bool {
	if ctx == nil {
		return false
	}
	_, ok := ctx.GetFields()["error"]
	return ok
}

// ------------------------------------------------------------------- check

type nativeResult struct {
	req     m.Request
	allowed bool
	err     error
	unknown bool // some tuple's condition cannot be evaluated under this request's context
	inModel bool // the request names types and a relation of the model
	exp     refsem.Outcome
	refUnk  bool
	// knownSig: the native answer itself contradicts the reference semantics
	// with the signature of a recorded engine defect.
	knownSig string
}

func (n nativeResult) String() string {
	if n.err != nil {
		return fmt.Sprintf("error(%v)", n.err)
	}
	return fmt.Sprintf("allowed=%v", n.allowed)
}

type checker struct {
	env     *fw.Env
	c       Case
	s       *sut.SUT
	ctx     context.Context
	storeID string
	modelID string
	classes map[string]bool
	unkMemo map[string]bool
}

func (k *checker) class(c string) { k.classes[c] = true }

func (k *checker) fail(sig, format string, a ...any) *fw.Failure {
	b, _ := json.Marshal(struct {
		Top      Item     `json:"top"`
		Items    []Item   `json:"items"`
		Searches []Search `json:"searches"`
		Pin      bool     `json:"pin_model"`
		Decoy    bool     `json:"decoy_latest"`
	}{k.c.Top, k.c.Items, k.c.Searches, k.c.PinModel, k.c.DecoyLatest})
	return fw.Failf(sig, "%s\nrequests: %s\n%s", fmt.Sprintf(format, a...), b, semkit.Describe(k.c.World))
}

func (k *checker) unknownUnder(ctx map[string]any) bool {
	b, _ := json.Marshal(ctx)
	if v, ok := k.unkMemo[string(b)]; ok {
		return v
	}
	v := refsem.NewEval(k.c.World.Model, semkit.EvalTuples(k.c.World, nil), "user:0", ctx).HasUnknownTuple
	k.unkMemo[string(b)] = v
	return v
}

// localClassify extends semkit.ClassifyCheck with root-cause signatures of
// Check-engine defects (C01 domain) that were first seen through the native
// side of this differential.
//
// semkit.SigSortedReadDedup, Unknown shape: the tuple lost by the sorted read
// (see semkit) is the one whose condition cannot be evaluated, so the engine
// answers false where the request must fail (reference Unknown).
//
// SigRecursiveUsersetRelation: a relation T#r with the restrictions
// [T#r, T#r2, ...] is resolved for a user type that reaches T#r2 by no path
// with the recursive-userset fast path (typesystem.UsersetUseRecursiveResolver
// skips the T#r2 edge because it has no weight for that user type), but
// checkutil.IteratorReadUsersetTuples hands the fast path the userset tuples
// of EVERY restriction and the UsersetKind mapper keeps only their object:
// a tuple T:a#r@T:b#r2 is followed as if it were T:a#r@T:b#r, and the engine
// grants access that nobody has. Which strategy runs is chosen by the planner,
// so the wrong answer is intermittent.
const SigRecursiveUsersetRelation = "C01/recursive-userset-fast-path-ignores-userset-relation"

func localClassify(w gen.World, r m.Request, exp refsem.Outcome, allowed bool, err error) string {
	if err != nil {
		return ""
	}
	if !allowed && exp == refsem.Unknown && semkit.UserAndWildcardOnSameObjectNotBothEffective(w, r) {
		return semkit.SigSortedReadDedup
	}
	if allowed && exp == refsem.False && recursiveUsersetOtherRelationTuple(w) {
		return SigRecursiveUsersetRelation
	}
	return ""
}

// recursiveUsersetOtherRelationTuple: some relation T#r allows both its own
// userset T#r and another userset T#r2 of the same type, and a valid stored
// tuple on T#r has a user T:x#r2.
func recursiveUsersetOtherRelationTuple(w gen.World) bool {
	for _, tu := range w.Tuples {
		ot, _ := m.SplitObject(tu.Object)
		uo, urel := m.SplitUser(tu.User)
		if urel == "" || urel == tu.Relation || m.UserType(uo) != ot {
			continue
		}
		rel := w.Model.Relation(ot, tu.Relation)
		if rel == nil {
			continue
		}
		self := false
		for _, re := range rel.Restr {
			if re.Type == ot && re.Rel == tu.Relation {
				self = true
			}
		}
		if self {
			return true
		}
	}
	return false
}

// nativeCheck runs Server.Check for the mapped request and compares it with
// the reference semantics. tooComplex reports a depth-limit error.
func (k *checker) nativeCheck(r m.Request) (res nativeResult, tooComplex bool, f *fw.Failure) {
	mo := k.c.World.Model
	res.req = r
	ot, _ := m.SplitObject(r.Object)
	res.inModel = mo.Relation(ot, r.Relation) != nil && mo.Type(m.UserType(r.User)) != nil
	res.unknown = k.unknownUnder(r.Ctx)
	res.allowed, res.err = k.s.Check(context.Background(), k.storeID, k.modelID, r)
	if semkit.IsTooComplex(res.err) {
		return res, true, nil
	}
	if !res.inModel {
		if res.err == nil {
			return res, false, k.fail("C32/native-accepts-request-outside-model", "native Check(%s) on a type or relation the model lacks returned allowed=%v", r, res.allowed)
		}
		return res, false, nil
	}
	exp, unk := semkit.RefCheck(k.c.World, r)
	res.exp, res.refUnk = exp, unk
	if ok, why := semkit.CompareCheck(exp, unk, res.allowed, res.err); !ok {
		sig := semkit.ClassifyCheck(k.c.World, r, exp, res.allowed, res.err)
		if sig == "" {
			sig = localClassify(k.c.World, r, exp, res.allowed, res.err)
		}
		if fw.IsKnown(sig) {
			k.env.Rec.Known(sig)
			k.class("native-check-known-defect")
			res.knownSig = sig
		} else {
			return res, false, k.fail(sig, "native Check(%s) disagrees with the reference semantics: %s", r, why)
		}
	}
	return res, false, nil
}

// agree compares an AuthZEN answer with the native one. azErr: the answer
// reports an error (request error, or context.error on a batch item).
func (k *checker) agree(where string, n nativeResult, azDecision, azErr bool) *fw.Failure {
	if n.knownSig != "" && ((n.err != nil) != azErr || (n.err == nil && n.allowed != azDecision)) {
		// the native answer is already known to be wrong; the engine defect
		// behind it may be order- or planner-dependent, so a difference between
		// two runs is part of that finding
		return k.fail(n.knownSig, "%s: native Check(%s) = %s (known engine defect) and AuthZEN decision=%v error=%v differ", where, n.req, n, azDecision, azErr)
	}
	switch {
	case (n.err != nil) != azErr:
		if n.unknown {
			k.class("unknown-tolerated")
			k.env.Rec.Add("error_vs_answer_under_unevaluable_condition", 1)
			return nil
		}
		return k.fail("C32/error-mapping", "%s: native Check(%s) = %s but AuthZEN decision=%v error=%v", where, n.req, n, azDecision, azErr)
	case azErr && azDecision:
		return k.fail("C32/error-with-permit", "%s: an item that reports an error has decision=true (native Check(%s) = %s)", where, n.req, n)
	case n.err == nil && n.allowed != azDecision:
		// Both answers come from the same engine. When the AuthZEN-side answer
		// is the one that contradicts the reference semantics and it matches the
		// root-cause signature of an engine defect whose occurrence depends on
		// the planner's strategy choice, report it under that signature.
		if n.inModel {
			if ok, _ := semkit.CompareCheck(n.exp, n.refUnk, azDecision, nil); !ok {
				sig := semkit.ClassifyCheck(k.c.World, n.req, n.exp, azDecision, nil)
				if sig == "" {
					sig = localClassify(k.c.World, n.req, n.exp, azDecision, nil)
				}
				if sig != "" {
					return k.fail(sig, "%s: the Check behind the AuthZEN answer (decision=%v) contradicts the reference semantics (%v); native Check(%s) = %s", where, azDecision, n.exp, n.req, n)
				}
			}
		}
		return k.fail("C32/decision-mismatch", "%s: native Check(%s) = %s but AuthZEN decision=%v", where, n.req, n, azDecision)
	}
	return nil
}

var semantics = []struct {
	name string
	opt  *authzenv1.EvaluationsOptions
}{
	{"default", nil},
	{"execute_all", &authzenv1.EvaluationsOptions{EvaluationsSemantic: authzenv1.EvaluationsSemantic_execute_all}},
	{"deny_on_first_deny", &authzenv1.EvaluationsOptions{EvaluationsSemantic: authzenv1.EvaluationsSemantic_deny_on_first_deny}},
	{"permit_on_first_permit", &authzenv1.EvaluationsOptions{EvaluationsSemantic: authzenv1.EvaluationsSemantic_permit_on_first_permit}},
}

func (k *checker) batch(nat []nativeResult) *fw.Failure {
	c := k.c
	req := func() *authzenv1.EvaluationsRequest {
		r := &authzenv1.EvaluationsRequest{StoreId: k.storeID, Subject: pbSubject(c.Top.Subject), Resource: pbResource(c.Top.Resource),
			Action: pbAction(c.Top.Action), Context: pbStruct(c.Top.Ctx, c.Top.HasCtx)}
		for _, it := range c.Items {
			r.Evaluations = append(r.Evaluations, pbItem(it))
		}
		return r
	}
	n := len(c.Items)
	for _, sem := range semantics {
		r := req()
		r.Options = sem.opt
		resp, err := k.s.Srv.Evaluations(k.ctx, r)
		if err != nil {
			return k.fail("C32/batch-request-failed", "Evaluations(%s) failed although every item resolves to a complete evaluation: %v", sem.name, err)
		}
		evs := resp.GetEvaluations()
		shortCircuit := sem.name == "deny_on_first_deny" || sem.name == "permit_on_first_permit"
		if !shortCircuit && len(evs) != n {
			return k.fail("C32/batch-length", "Evaluations(%s) returned %d answers for %d items", sem.name, len(evs), n)
		}
		if len(evs) > n || len(evs) == 0 {
			return k.fail("C32/batch-length", "Evaluations(%s) returned %d answers for %d items", sem.name, len(evs), n)
		}
		trigger := func(i int) bool {
			if sem.name == "deny_on_first_deny" {
				return !evs[i].GetDecision()
			}
			return evs[i].GetDecision()
		}
		for i, ev := range evs {
			if f := k.agree(fmt.Sprintf("Evaluations(%s) item %d", sem.name, i), nat[i], ev.GetDecision(), hasError(ev.GetContext())); f != nil {
				return f
			}
			if shortCircuit && i < len(evs)-1 && trigger(i) {
				return k.fail("C32/short-circuit-not-stopped", "Evaluations(%s): item %d has decision=%v but %d answers were returned", sem.name, i, ev.GetDecision(), len(evs))
			}
		}
		if shortCircuit {
			if len(evs) < n {
				k.class("short-circuited:" + sem.name)
				if !trigger(len(evs) - 1) {
					return k.fail("C32/short-circuit-stopped-early", "Evaluations(%s): stopped after item %d (decision=%v) of %d items", sem.name, len(evs)-1, evs[len(evs)-1].GetDecision(), n)
				}
			} else {
				k.class("ran-to-end:" + sem.name)
			}
		}
	}
	// empty evaluations list = the single evaluation of the top-level fields
	top := resolve(Item{}, c.Top)
	if top.Subject != nil && top.Resource != nil && top.Action != nil {
		k.class("empty-evaluations-list")
		nres, tooComplex, f := k.nativeCheck(native(top))
		if f != nil {
			return f
		}
		if !tooComplex {
			r := req()
			r.Evaluations = nil
			resp, err := k.s.Srv.Evaluations(k.ctx, r)
			switch {
			case err != nil:
				if f := k.agree("Evaluations(empty list)", nres, false, true); f != nil {
					return f
				}
			case len(resp.GetEvaluations()) != 1:
				return k.fail("C32/batch-length", "Evaluations with an empty list returned %d answers, expected 1", len(resp.GetEvaluations()))
			default:
				ev := resp.GetEvaluations()[0]
				if f := k.agree("Evaluations(empty list)", nres, ev.GetDecision(), hasError(ev.GetContext())); f != nil {
					return f
				}
			}
		}
	}
	return nil
}

func js(v any) string {
	b, _ := json.Marshal(v)
	return string(b)
}

// searchSig: ListUsers / ListObjects call Check internally; in a world that
// holds the structural trigger of the planner-dependent engine defect
// SigRecursiveUsersetRelation two runs of the same native search may differ,
// so a search mismatch there is reported under that signature.
func (k *checker) searchSig(sig string) string {
	if recursiveUsersetOtherRelationTuple(k.c.World) {
		return SigRecursiveUsersetRelation
	}
	return sig
}

func sameSet(a, b []string) bool {
	x, y := semkit.SortedSet(a), semkit.SortedSet(b)
	if len(x) != len(y) {
		return false
	}
	for i := range x {
		if x[i] != y[i] {
			return false
		}
	}
	return true
}

// candidates of a type: the objects of that type mentioned in the stored tuples.
func (k *checker) candidates(typ string) map[string]bool {
	out := map[string]bool{}
	add := func(o string) {
		if t, id := m.SplitObject(o); t == typ && id != "*" {
			out[o] = true
		}
	}
	for _, tu := range append(append([]m.Tuple{}, k.c.World.Tuples...), k.c.World.Left...) {
		add(tu.Object)
		uo, _ := m.SplitUser(tu.User)
		add(uo)
	}
	return out
}

func strictNonEmptySubset(result []string, cands map[string]bool) bool {
	if len(result) == 0 {
		return false
	}
	in := map[string]bool{}
	for _, r := range result {
		in[r] = true
	}
	for c := range cands {
		if !in[c] {
			return true
		}
	}
	return false
}

func (k *checker) page(s Search) *authzenv1.PageRequest {
	if s.PageLimit == 0 {
		return nil
	}
	k.class("page-limit-sent")
	l := uint32(s.PageLimit)
	return &authzenv1.PageRequest{Limit: &l}
}

func (k *checker) searchErr(kind string, s Search, natErr, azErr error, ctx map[string]any) *fw.Failure {
	if (natErr != nil) == (azErr != nil) {
		k.class(kind + "-search:both-fail")
		return nil
	}
	if k.unknownUnder(ctx) {
		k.class("unknown-tolerated")
		k.env.Rec.Add("search_error_vs_answer_under_unevaluable_condition", 1)
		return nil
	}
	return k.fail("C32/search-error-mapping", "%s search %s: native error=%v, AuthZEN error=%v", kind, js(s.Item), natErr, azErr)
}

// search runs one search; nt reports a non-empty strict subset of the candidates.
func (k *checker) search(s Search) (nt bool, f *fw.Failure) {
	it := s.Item
	mo := k.c.World.Model
	bg := context.Background()
	var filterID *string
	if s.FilterID != "" {
		filterID = &s.FilterID
		k.class("filter-id-sent")
	}
	switch s.Kind {
	case "subject":
		filter := &authzenv1.SubjectFilter{Type: it.Subject.Type, Id: filterID, Properties: pbStruct(it.Subject.Props, it.Subject.Props != nil)}
		ctx := mergedContext(it.Subject, it.Resource, it.Action, it)
		nresp, nerr := k.s.Srv.ListUsers(bg, &openfgav1.ListUsersRequest{StoreId: k.storeID, AuthorizationModelId: k.modelID,
			Object: &openfgav1.Object{Type: it.Resource.Type, Id: it.Resource.ID}, Relation: it.Action.Name,
			UserFilters: []*openfgav1.UserTypeFilter{{Type: it.Subject.Type}}, Context: conv.Struct(ctx)})
		aresp, aerr := k.s.Srv.SubjectSearch(k.ctx, &authzenv1.SubjectSearchRequest{StoreId: k.storeID, Resource: pbResource(it.Resource),
			Action: pbAction(it.Action), Subject: filter, Context: pbStruct(it.Ctx, it.HasCtx), Page: k.page(s)})
		if nerr != nil || aerr != nil {
			return false, k.searchErr("subject", s, nerr, aerr, ctx)
		}
		var want, got []string
		for _, u := range nresp.GetUsers() {
			switch {
			case u.GetObject() != nil:
				want = append(want, u.GetObject().GetType()+":"+u.GetObject().GetId())
			case u.GetWildcard() != nil:
				want = append(want, u.GetWildcard().GetType()+":*")
			default:
				want = append(want, "unmappable:"+u.String())
			}
		}
		for _, r := range aresp.GetResults() {
			got = append(got, r.GetType()+":"+r.GetId())
		}
		if !sameSet(want, got) {
			if k.unknownUnder(ctx) {
				k.class("unknown-tolerated")
				k.env.Rec.Add("search_results_differ_under_unevaluable_condition", 1)
				return false, nil
			}
			if semkit.ExclusionBelow(k.c.World.Model, it.Resource.Type+":"+it.Resource.ID, it.Action.Name) || semkit.HasExclusion(k.c.World.Model) {
				// ListUsers' answer on a model with an exclusion below the queried relation depends on the order
				// in which its workers report (recorded under C06): two calls need not agree with each other
				k.class("subject-search-unjudged:listusers-order-dependent-under-exclusion")
				k.env.Rec.Add("subject_search_differs_on_exclusion_model", 1)
				return false, nil
			}
			return false, k.fail(k.searchSig("C32/subject-search-mismatch"), "SubjectSearch(%s): ListUsers(%s#%s, filter %s, ctx=%v) = %v but AuthZEN returned %v", js(it), it.Resource.Type+":"+it.Resource.ID, it.Action.Name, it.Subject.Type, ctx, semkit.SortedSet(want), semkit.SortedSet(got))
		}
		if len(want) > 0 {
			k.class("subject-search:non-empty")
		} else {
			k.class("subject-search:empty")
		}
		for _, u := range want {
			if strings.HasSuffix(u, ":*") {
				k.class("subject-search:wildcard-result")
			}
		}
		return strictNonEmptySubset(want, k.candidates(it.Subject.Type)), nil
	case "resource":
		filter := &authzenv1.ResourceFilter{Type: it.Resource.Type, Id: filterID, Properties: pbStruct(it.Resource.Props, it.Resource.Props != nil)}
		ctx := mergedContext(it.Subject, it.Resource, it.Action, it)
		user := it.Subject.Type + ":" + it.Subject.ID
		nresp, nerr := k.s.Srv.ListObjects(bg, &openfgav1.ListObjectsRequest{StoreId: k.storeID, AuthorizationModelId: k.modelID,
			Type: it.Resource.Type, Relation: it.Action.Name, User: user, Context: conv.Struct(ctx)})
		aresp, aerr := k.s.Srv.ResourceSearch(k.ctx, &authzenv1.ResourceSearchRequest{StoreId: k.storeID, Subject: pbSubject(it.Subject),
			Action: pbAction(it.Action), Resource: filter, Context: pbStruct(it.Ctx, it.HasCtx), Page: k.page(s)})
		if nerr != nil || aerr != nil {
			return false, k.searchErr("resource", s, nerr, aerr, ctx)
		}
		want := nresp.GetObjects()
		var got []string
		for _, r := range aresp.GetResults() {
			got = append(got, r.GetType()+":"+r.GetId())
		}
		if !sameSet(want, got) {
			if k.unknownUnder(ctx) {
				k.class("unknown-tolerated")
				k.env.Rec.Add("search_results_differ_under_unevaluable_condition", 1)
				return false, nil
			}
			return false, k.fail(k.searchSig("C32/resource-search-mismatch"), "ResourceSearch(%s): ListObjects(%s, %s, %s, ctx=%v) = %v but AuthZEN returned %v", js(it), it.Resource.Type, it.Action.Name, user, ctx, semkit.SortedSet(want), semkit.SortedSet(got))
		}
		if len(want) > 0 {
			k.class("resource-search:non-empty")
		} else {
			k.class("resource-search:empty")
		}
		return strictNonEmptySubset(want, k.candidates(it.Resource.Type)), nil
	case "action":
		td := mo.Type(it.Resource.Type)
		if td == nil || len(td.Relations) == 0 {
			k.env.Rec.Add("action_search_outside_model", 1)
			return false, nil
		}
		// the action's properties are not part of an ActionSearch request
		ctx := mergedContext(it.Subject, it.Resource, nil, it)
		var want []string
		strict := !k.unknownUnder(ctx)
		for _, rel := range td.Relations {
			r := m.Request{User: it.Subject.Type + ":" + it.Subject.ID, Object: it.Resource.Type + ":" + it.Resource.ID, Relation: rel.Name, Ctx: ctx}
			allowed, err := k.s.Check(bg, k.storeID, k.modelID, r)
			if semkit.IsTooComplex(err) {
				k.env.Rec.Add("depth_excluded", 1)
				return false, nil
			}
			if err == nil && allowed {
				want = append(want, rel.Name)
			}
		}
		aresp, aerr := k.s.Srv.ActionSearch(k.ctx, &authzenv1.ActionSearchRequest{StoreId: k.storeID, Subject: pbSubject(it.Subject),
			Resource: pbResource(it.Resource), Context: pbStruct(it.Ctx, it.HasCtx), Page: k.page(s)})
		if aerr != nil {
			return false, k.fail("C32/action-search-failed", "ActionSearch(%s) failed: %v", js(it), aerr)
		}
		var got []string
		for _, a := range aresp.GetResults() {
			got = append(got, a.GetName())
		}
		if !sort.StringsAreSorted(got) {
			return false, k.fail("C32/action-search-unsorted", "ActionSearch(%s) is not sorted: %v", js(it), got)
		}
		if !sameSet(want, got) {
			if !strict {
				k.class("unknown-tolerated")
				k.env.Rec.Add("search_results_differ_under_unevaluable_condition", 1)
				return false, nil
			}
			return false, k.fail(k.searchSig("C32/action-search-mismatch"), "ActionSearch(%s): the relations native Check allows are %v but AuthZEN returned %v", js(it), semkit.SortedSet(want), got)
		}
		if len(want) > 0 {
			k.class("action-search:non-empty")
		} else {
			k.class("action-search:empty")
		}
		return len(want) > 0 && len(want) < len(td.Relations), nil
	}
	return false, fw.Failf("harness/unknown-search-kind", "search kind %q", s.Kind)
}

func check(env *fw.Env, c Case) *fw.Failure {
	s := azServer()
	storeID, modelID, f := semkit.SetupWorld(env, s, c.World)
	if f != nil || storeID == "" {
		return f
	}
	k := &checker{env: env, c: c, s: s, storeID: storeID, modelID: modelID, classes: map[string]bool{}, unkMemo: map[string]bool{}, ctx: context.Background()}
	if c.DecoyLatest {
		if _, err := s.WriteModel(storeID, &m.Model{Types: []m.TypeDef{{Name: "user"}}}); err != nil {
			return fw.Failf("harness/decoy-model-rejected", "decoy model: %v", err)
		}
		k.class("decoy-latest-model")
	}
	if c.PinModel || c.DecoyLatest {
		k.ctx = metadata.NewIncomingContext(context.Background(), metadata.New(map[string]string{strings.ToLower(server.AuthorizationModelIDHeader): modelID}))
		k.class("model-pinned-by-header")
	} else {
		k.class("latest-model")
	}
	if c.UsersetSubjects > 0 {
		env.Rec.Add("userset_subjects_not_expressible", c.UsersetSubjects)
	}
	for _, cl := range semkit.ModelClasses(c.World.Model) {
		k.class(cl)
	}
	for _, cd := range c.World.Model.Conds {
		for _, p := range cd.Params {
			if pf, _ := splitPrefix(p.Name); pf != "" {
				k.class("condition-param-from-properties")
			}
		}
	}

	// every item must resolve to a complete evaluation (the generator guarantees it)
	var nat []nativeResult
	sawT, sawF := false, false
	for i, it := range c.Items {
		full := resolve(it, c.Top)
		if full.Subject == nil || full.Resource == nil || full.Action == nil {
			env.Rec.Discard("incomplete-item")
			return nil
		}
		if it.Subject == nil || it.Resource == nil || it.Action == nil || (!it.HasCtx && c.Top.HasCtx) {
			k.class("item-inherits-default")
		}
		if it.HasCtx && c.Top.HasCtx {
			k.class("item-context-replaces-default")
		}
		for _, e := range []map[string]any{full.Subject.Props, full.Resource.Props, full.Action.Props} {
			if len(e) > 0 {
				k.class("properties")
			}
		}
		r := native(full)
		for key := range r.Ctx {
			if p, rest := splitPrefix(key); p != "" && full.HasCtx {
				if _, inCtx := full.Ctx[key]; inCtx {
					var props map[string]any
					switch p {
					case "subject_":
						props = full.Subject.Props
					case "resource_":
						props = full.Resource.Props
					default:
						props = full.Action.Props
					}
					if pv, ok := props[rest]; ok && fmt.Sprint(pv) != fmt.Sprint(full.Ctx[key]) {
						k.class("property-context-conflict")
					}
				}
			}
		}
		if m.UserKind(r.User) == "wildcard" {
			k.class("subject:wildcard")
		}
		res, tooComplex, f := k.nativeCheck(r)
		if f != nil {
			return f
		}
		if tooComplex {
			env.Rec.Add("depth_excluded", 1)
			env.Rec.Discard("resolution-too-complex")
			return nil
		}
		nat = append(nat, res)
		switch {
		case res.err != nil && !res.inModel:
			k.class("native:validation-error")
		case res.err != nil:
			k.class("native:error")
		case res.allowed:
			k.class("native:allowed")
			sawT = true
		default:
			k.class("native:denied")
			sawF = true
		}
		if res.unknown {
			k.class("unevaluable-condition-present")
		}
		// single Evaluation of the complete item
		ev, err := s.Srv.Evaluation(k.ctx, &authzenv1.EvaluationRequest{StoreId: storeID, Subject: pbSubject(full.Subject), Resource: pbResource(full.Resource),
			Action: pbAction(full.Action), Context: pbStruct(full.Ctx, full.HasCtx)})
		if f := k.agree(fmt.Sprintf("Evaluation of item %d", i), res, ev.GetDecision(), err != nil); f != nil {
			return f
		}
		if err == nil && hasError(ev.GetContext()) {
			return k.fail("C32/error-mapping", "Evaluation of item %d succeeded but carries context.error: %v", i, ev.GetContext())
		}
	}
	if f := k.batch(nat); f != nil {
		return f
	}
	searchNT := false
	for _, sr := range c.Searches {
		nt, f := k.search(sr)
		if f != nil {
			return f
		}
		searchNT = searchNT || nt
	}
	mixed := sawT && sawF
	if mixed {
		k.class("batch-mixed-decisions")
	}
	if searchNT {
		k.class("search-strict-non-empty-subset")
	}
	nt := mixed && searchNT
	var sample any
	if nt {
		var ns []string
		for _, n := range nat {
			ns = append(ns, n.req.String()+" => "+n.String())
		}
		sample = map[string]any{"model": c.World.Model.DSL(), "tuples": semkit.TupleStrings(c.World.Tuples), "top": c.Top, "items": c.Items, "native": ns, "searches": c.Searches}
	}
	env.Rec.Case(c, nt, sample, gen.SortedKeys(k.classes)...)
	return nil
}

func TestC32(t *testing.T) { fw.Run(t, "C32", genCase, check) }
