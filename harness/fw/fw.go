// Package fw is the property-check framework: every check is a
// pure function of a JSON-serialisable case; rapid only draws the case.
package fw

import (
	"encoding/json"
	"fmt"
	"os"
	"path/filepath"
	"runtime/debug"
	"sync"
	"testing"

	"pgregory.net/rapid"

	"github.com/openfga/openfga/verifharness/evid"
)

// Failure describes a property violation found on one case.
type Failure struct {
	// Signature classifies the root cause ("" = unclassified). A signature
	// listed as open in known_findings.json does not fail the run.
	Signature string `json:"signature"`
	Msg       string `json:"msg"`
}

func Failf(sig, format string, a ...any) *Failure {
	return &Failure{Signature: sig, Msg: fmt.Sprintf(format, a...)}
}

// Env is handed to every check.
type Env struct {
	ID     string
	Rec    *evid.Recorder
	Replay bool
	Tier   string
}

var (
	recMu     sync.Mutex
	recorders = map[string]*evid.Recorder{}
	knownOnce sync.Once
	knownOpen = map[string]bool{}
)

func recorder(id string) *evid.Recorder {
	recMu.Lock()
	defer recMu.Unlock()
	if r, ok := recorders[id]; ok {
		return r
	}
	r := evid.New(id)
	recorders[id] = r
	return r
}

// FlushAll writes every recorder; called from TestMain.
func FlushAll() {
	out := os.Getenv("VERIF_EVID_OUT")
	if out == "" {
		return
	}
	recMu.Lock()
	defer recMu.Unlock()
	for id, r := range recorders {
		p := out
		if len(recorders) > 1 {
			p = out + "." + id
		}
		if err := r.Flush(p); err != nil {
			fmt.Fprintf(os.Stderr, "evid flush: %v\n", err)
		}
	}
}

// Root returns /verif (or VERIF_ROOT).
func Root() string {
	if r := os.Getenv("VERIF_ROOT"); r != "" {
		return r
	}
	return "/verif"
}

type knownFile struct {
	Findings []struct {
		Property  string `json:"property"`
		Signature string `json:"signature"`
		Status    string `json:"status"`
		What      string `json:"what"`
		Repro     string `json:"repro"`
	} `json:"findings"`
}

func loadKnown() {
	knownOnce.Do(func() {
		b, err := os.ReadFile(filepath.Join(Root(), "known_findings.json"))
		if err != nil {
			return
		}
		var kf knownFile
		if json.Unmarshal(b, &kf) != nil {
			return
		}
		for _, f := range kf.Findings {
			if f.Status == "open" {
				knownOpen[f.Signature] = true
			}
		}
	})
}

// IsKnown reports whether the signature is listed as an open known finding.
func IsKnown(sig string) bool {
	loadKnown()
	return sig != "" && knownOpen[sig]
}

type replayFile[C any] struct {
	Property  string `json:"property"`
	Signature string `json:"signature,omitempty"`
	Msg       string `json:"msg,omitempty"`
	Case      C      `json:"case"`
}

func dumpReplay[C any](id string, c C, f *Failure) {
	out := os.Getenv("VERIF_REPLAY_OUT")
	if out == "" {
		return
	}
	b, err := json.MarshalIndent(replayFile[C]{Property: id, Signature: f.Signature, Msg: f.Msg, Case: c}, "", " ")
	if err != nil {
		return
	}
	_ = os.WriteFile(out, b, 0o644)
}

func safeCheck[C any](env *Env, c C, check func(*Env, C) *Failure) (f *Failure) {
	defer func() {
		if r := recover(); r != nil {
			f = &Failure{Signature: env.ID + "/harness-or-sut-panic", Msg: fmt.Sprintf("panic: %v\n%s", r, debug.Stack())}
		}
	}()
	return check(env, c)
}

// Run drives one property: in replay mode (VERIF_REPLAY=<file>) it re-runs the
// saved case, otherwise it lets rapid generate cases.
func Run[C any](t *testing.T, id string, gen func(*rapid.T) C, check func(*Env, C) *Failure) {
	env := &Env{ID: id, Rec: recorder(id), Tier: os.Getenv("VERIF_TIER")}
	if env.Tier == "" {
		env.Tier = "quick"
	}
	if p := os.Getenv("VERIF_REPLAY"); p != "" {
		env.Replay = true
		b, err := os.ReadFile(p)
		if err != nil {
			t.Fatalf("replay: %v", err)
		}
		var rf replayFile[C]
		if err := json.Unmarshal(b, &rf); err != nil {
			t.Fatalf("replay: %v", err)
		}
		if rf.Property != id {
			t.Skipf("replay file is for %s", rf.Property)
		}
		f := safeCheck(env, rf.Case, check)
		res := map[string]any{"fail": f != nil}
		if f != nil {
			res["signature"] = f.Signature
			res["msg"] = f.Msg
		}
		jb, _ := json.Marshal(res)
		fmt.Printf("REPLAY-RESULT %s\n", jb)
		if f != nil {
			t.Fatalf("replayed case violates %s [%s]: %s", id, f.Signature, f.Msg)
		}
		return
	}
	rapid.Check(t, func(rt *rapid.T) {
		c := gen(rt)
		f := safeCheck(env, c, check)
		if f == nil {
			return
		}
		if IsKnown(f.Signature) {
			env.Rec.Known(f.Signature)
			return
		}
		env.Rec.SetFailed()
		dumpReplay(id, c, f)
		rt.Fatalf("property %s violated [%s]: %s", id, f.Signature, f.Msg)
	})
}

// Sized returns q in the quick tier and th in the thorough tier.
func (e *Env) Sized(q, th int) int {
	if e.Tier == "thorough" {
		return th
	}
	return q
}

// TierIsThorough reports whether VERIF_TIER=thorough (for generators).
func TierIsThorough() bool { return os.Getenv("VERIF_TIER") == "thorough" }
