package p17

import (
	"context"
	"fmt"
	"sort"
	"strings"
	"sync"
	"testing"

	"github.com/oklog/ulid/v2"
	openfgav1 "github.com/openfga/api/proto/openfga/v1"
	"google.golang.org/grpc/status"
	"google.golang.org/protobuf/encoding/prototext"
	"google.golang.org/protobuf/proto"
	"google.golang.org/protobuf/types/known/structpb"
	"google.golang.org/protobuf/types/known/wrapperspb"

	"github.com/openfga/openfga/pkg/server"
	"github.com/openfga/openfga/pkg/typesystem"

	"github.com/openfga/openfga/verifharness/fw"
	"github.com/openfga/openfga/verifharness/sut"
)

// C17 — models are validated, immutable and resolved to the latest.
//
// Oracle (from the property statement and the documented validation rules):
//   - a submission the reference validator (refval_test.go) calls invalid, in
//     particular every invalid-by-construction mutant, is rejected, and
//     ReadAuthorizationModels is unchanged afterwards;
//   - an accepted model gets a ULID strictly greater (string order) than every
//     earlier id of the store;
//   - a submission the reference validator calls valid is accepted (a mismatch
//     is reported under its own signature so that "who is wrong" can be decided
//     from the documented rule);
//   - ReadAuthorizationModel(id) returns a model proto.Equal to the submission
//     (type definitions, conditions, schema version, id) at every later point;
//   - ReadAuthorizationModels (all pages) lists exactly the accepted models,
//     newest first;
//   - a model-less Check / ListObjects / Write is evaluated against the last
//     ACCEPTED model: (1) the "Openfga-Authorization-Model-Id" response header
//     recorded by a capturing transport, (2) the answer itself, because version
//     k of the probe type only allows vx == k / only defines relation only<k>.
//
// NT: some store has >= 2 accepted models with a model-less request between
// them and one after the newer one.

type capKey struct{}

type capture struct {
	mu      sync.Mutex
	headers map[string][]string
}

type capTransport struct{}

func (capTransport) SetHeader(ctx context.Context, key, value string) {
	if c, ok := ctx.Value(capKey{}).(*capture); ok && c != nil {
		c.mu.Lock()
		c.headers[key] = append(c.headers[key], value)
		c.mu.Unlock()
	}
}

func capCtx() (context.Context, *capture) {
	c := &capture{headers: map[string][]string{}}
	return context.WithValue(context.Background(), capKey{}, c), c
}

func (c *capture) modelIDs() []string { return c.headers[server.AuthorizationModelIDHeader] }

var (
	srvOnce sync.Once
	srv     *sut.SUT
)

// theServer: process-wide server over the memory datastore with the DEFAULT
// model cache and typesystem cache (that is where a stale "latest" could hide);
// every case uses fresh stores.
func theServer() *sut.SUT {
	srvOnce.Do(func() { srv = sut.New(server.WithTransport(capTransport{})) })
	return srv
}

type accepted struct {
	id  string
	sub *Sub
}

type storeState struct {
	id        string
	acc       []accepted // in order of acceptance
	probeTup  bool
	lastOther int // version of the most recent submission that is not the latest accepted one (0 = none)
	// NT bookkeeping
	lessAfter []bool // lessAfter[i]: a model-less request ran while acc[i] was the latest
}

func (st *storeState) latest() *accepted {
	if len(st.acc) == 0 {
		return nil
	}
	return &st.acc[len(st.acc)-1]
}

func code(err error) string {
	if err == nil {
		return "ok"
	}
	if s, ok := status.FromError(err); ok {
		return fmt.Sprintf("code%d", int(s.Code()))
	}
	return "non-status"
}

// rejectReason classifies the server's rejection message of a model the
// reference validator accepts.
func rejectReason(err error) string {
	msg := err.Error()
	switch {
	case strings.Contains(msg, "no entrypoints defined"), strings.Contains(msg, "potential loop"):
		return "no-entrypoints"
	case strings.Contains(msg, "cannot contain a cycle"):
		return "cycle"
	case strings.Contains(msg, "undefined relation"):
		return "undefined-relation"
	}
	return "other"
}

func vxCtx(v int) *structpb.Struct {
	s, _ := structpb.NewStruct(map[string]any{"vx": float64(v)})
	return s
}

func dump(mo *openfgav1.AuthorizationModel) string {
	return prototext.MarshalOptions{Multiline: false}.Format(mo)
}

func checkC17(env *fw.Env, c Case) *fw.Failure {
	s := theServer()
	stores := make([]*storeState, c.Stores)
	for i := range stores {
		stores[i] = &storeState{id: s.CreateStore(fmt.Sprintf("c17-%d", i))}
	}
	classes := map[string]bool{}
	cls := func(f string, a ...any) { classes[fmt.Sprintf(f, a...)] = true }

	// listModels reads every page.
	listModels := func(st *storeState, pageSize int) ([]*openfgav1.AuthorizationModel, int, error) {
		var out []*openfgav1.AuthorizationModel
		tok, pages := "", 0
		for {
			req := &openfgav1.ReadAuthorizationModelsRequest{StoreId: st.id, ContinuationToken: tok}
			if pageSize > 0 {
				req.PageSize = wrapperspb.Int32(int32(pageSize))
			}
			resp, err := s.Srv.ReadAuthorizationModels(context.Background(), req)
			if err != nil {
				return nil, pages, err
			}
			pages++
			if pageSize > 0 && len(resp.GetAuthorizationModels()) > pageSize {
				return nil, pages, fmt.Errorf("page of %d models exceeds page size %d", len(resp.GetAuthorizationModels()), pageSize)
			}
			out = append(out, resp.GetAuthorizationModels()...)
			tok = resp.GetContinuationToken()
			if tok == "" {
				return out, pages, nil
			}
			if pages > 100 {
				return nil, pages, fmt.Errorf("pagination does not terminate")
			}
		}
	}
	// verifyList: the listing is exactly the accepted models, newest first.
	verifyList := func(st *storeState, pageSize int, when string) *fw.Failure {
		got, pages, err := listModels(st, pageSize)
		if err != nil {
			return fw.Failf("C17/read-models-error", "%s: ReadAuthorizationModels(page size %d): %v", when, pageSize, err)
		}
		if pages >= 2 {
			cls("list:pages>=2")
		}
		if len(got) != len(st.acc) {
			ids := []string{}
			for _, g := range got {
				ids = append(ids, g.GetId())
			}
			sig := "C17/read-models-wrong-set"
			if strings.HasPrefix(when, "after rejected") {
				sig = "C17/rejected-model-persisted"
			}
			return fw.Failf(sig, "%s: ReadAuthorizationModels lists %d models %v, %d were accepted", when, len(got), ids, len(st.acc))
		}
		for i, g := range got {
			want := st.acc[len(st.acc)-1-i]
			if g.GetId() != want.id {
				ids := []string{}
				for _, g := range got {
					ids = append(ids, g.GetId())
				}
				var exp []string
				for j := len(st.acc) - 1; j >= 0; j-- {
					exp = append(exp, st.acc[j].id)
				}
				return fw.Failf("C17/read-models-not-newest-first", "%s: ReadAuthorizationModels order %v, expected newest first %v", when, ids, exp)
			}
			if exp := want.sub.expectedModel(want.id); !proto.Equal(g, exp) {
				return fw.Failf("C17/read-models-model-changed", "%s: ReadAuthorizationModels returned a model that differs from the submission\n got: %s\nwant: %s", when, dump(g), dump(exp))
			}
		}
		return nil
	}
	// verifyHeader: the model-less request resolved to the latest accepted model.
	verifyHeader := func(st *storeState, cap *capture, what string) *fw.Failure {
		ids := cap.modelIDs()
		lat := st.latest()
		if lat == nil {
			if len(ids) > 0 {
				return fw.Failf("C17/model-resolved-in-empty-store", "%s without model id in a store without models resolved model %v", what, ids)
			}
			return nil
		}
		if len(ids) == 0 {
			return fw.Failf("C17/no-resolved-model-header", "%s: no %s header was set", what, server.AuthorizationModelIDHeader)
		}
		for _, id := range ids {
			if id != lat.id {
				pos := "an unknown model"
				for i, a := range st.acc {
					if a.id == id {
						pos = fmt.Sprintf("accepted model #%d of %d (version %d)", i+1, len(st.acc), a.sub.Version)
					}
				}
				return fw.Failf("C17/model-less-request-not-latest", "%s without model id resolved %s = %s, the most recently written model is %s (version %d)", what, id, pos, lat.id, lat.sub.Version)
			}
		}
		return nil
	}
	markLess := func(st *storeState) {
		if len(st.acc) > 0 {
			st.lessAfter[len(st.acc)-1] = true
		}
	}

	nAccepted, nRejected := 0, 0
	var deferred *fw.Failure
	for si, step := range c.Steps {
		st := stores[step.Store]
		at := fmt.Sprintf("step %d (%s, store %d)", si, step.Op, step.Store)
		switch step.Op {
		case OpWriteModel:
			sub := step.Sub
			ver := refValidate(sub)
			if sub.Rule != "" && ver.Kind != "invalid" {
				return fw.Failf("C17/harness-mutant-not-invalid", "%s: the reference validator calls the mutant for rule %q %s\n%s", at, sub.Rule, ver.Kind, sub.full().DSL())
			}
			// label only (never an oracle): what the repository's validator says about the submission.
			if sub.Rule == "" {
				_, lerr := typesystem.NewAndValidate(context.Background(), sub.expectedModel(ulid.Make().String()))
				cls("draw:ref-%s", ver.Kind)
				env.Rec.Add("draw_ref_"+ver.Kind+":"+ver.Rule, 1)
				if lerr == nil {
					cls("draw:label-valid")
				} else {
					cls("draw:label-invalid")
				}
			} else {
				cls("mutant:%s", sub.Rule)
			}
			resp, err := s.Srv.WriteAuthorizationModel(context.Background(), sub.request(st.id))
			if err != nil {
				nRejected++
				cls("reject:%s", code(err))
				if ver.Kind == "valid" {
					f := fw.Failf("C17/valid-model-rejected:"+rejectReason(err), "%s: the reference validator accepts the model, WriteAuthorizationModel rejects it: %v\n%s", at, err, sub.full().DSL())
					if !fw.IsKnown(f.Signature) {
						return f
					}
					// a recorded defect: keep exploring the rest of the sequence (the write
					// counts as rejected) and hand the mismatch back at the end.
					if deferred == nil {
						deferred = f
					}
				}
				if ver.Kind == "ambiguous" {
					cls("ambiguous-rejected")
				}
				if f := verifyList(st, 0, "after rejected write at "+at); f != nil {
					return f
				}
				if st.latest() == nil || st.latest().sub.Version != sub.Version {
					st.lastOther = sub.Version
				}
				continue
			}
			id := resp.GetAuthorizationModelId()
			if ver.Kind == "invalid" {
				sig := "C17/invalid-model-accepted:" + ver.Rule
				if sub.Rule != "" {
					sig = "C17/invalid-model-accepted:" + sub.Rule
				}
				return fw.Failf(sig, "%s: WriteAuthorizationModel accepted (id %s) a model that breaks the documented rule %q (mutant rule %q)\nschema %q raw conditions %+v\n%s", at, id, ver.Rule, sub.Rule, sub.Schema, sub.RawConds, sub.full().DSL())
			}
			if ver.Kind == "ambiguous" {
				cls("ambiguous-accepted")
			}
			nAccepted++
			if _, perr := ulid.ParseStrict(id); perr != nil {
				return fw.Failf("C17/model-id-not-ulid", "%s: model id %q is not a ULID: %v", at, id, perr)
			}
			for _, a := range st.acc {
				if !(id > a.id) {
					return fw.Failf("C17/model-id-not-increasing", "%s: new model id %s is not greater than the earlier id %s of the same store", at, id, a.id)
				}
			}
			if l := st.latest(); l != nil {
				st.lastOther = l.sub.Version
			}
			st.acc = append(st.acc, accepted{id: id, sub: sub})
			st.lessAfter = append(st.lessAfter, false)
			if !st.probeTup {
				// the probe tuple, written once per store with an explicit model id
				_, werr := s.Srv.Write(context.Background(), &openfgav1.WriteRequest{StoreId: st.id, AuthorizationModelId: id,
					Writes: &openfgav1.WriteRequestWrites{TupleKeys: []*openfgav1.TupleKey{{Object: probeObj, Relation: "viewer", User: probeUser,
						Condition: &openfgav1.RelationshipCondition{Name: probeCond}}}}})
				if werr != nil {
					return fw.Failf("C17/harness-probe-write-failed", "%s: writing the probe tuple with model %s: %v", at, id, werr)
				}
				st.probeTup = true
			}
			// immediately readable and unchanged
			got, rerr := s.Srv.ReadAuthorizationModel(context.Background(), &openfgav1.ReadAuthorizationModelRequest{StoreId: st.id, Id: id})
			if rerr != nil {
				return fw.Failf("C17/accepted-model-not-readable", "%s: ReadAuthorizationModel(%s) right after the write: %v", at, id, rerr)
			}
			if exp := sub.expectedModel(id); !proto.Equal(got.GetAuthorizationModel(), exp) {
				return fw.Failf("C17/read-model-changed", "%s: ReadAuthorizationModel(%s) right after the write differs from the submission\n got: %s\nwant: %s", at, id, dump(got.GetAuthorizationModel()), dump(exp))
			}

		case OpReadModel:
			if step.Idx < 0 || len(st.acc) == 0 {
				// an id that was never assigned in this store (maybe assigned in the other store)
				id := ulid.Make().String()
				if c.Stores == 2 {
					if o := stores[1-step.Store]; len(o.acc) > 0 {
						id = o.acc[0].id
						cls("read:other-stores-id")
					}
				}
				resp, err := s.Srv.ReadAuthorizationModel(context.Background(), &openfgav1.ReadAuthorizationModelRequest{StoreId: st.id, Id: id})
				if err == nil {
					return fw.Failf("C17/unknown-model-id-readable", "%s: ReadAuthorizationModel(%s) for an id never assigned in this store returned %s", at, id, dump(resp.GetAuthorizationModel()))
				}
				cls("read:unknown-id")
				continue
			}
			a := st.acc[step.Idx%len(st.acc)]
			resp, err := s.Srv.ReadAuthorizationModel(context.Background(), &openfgav1.ReadAuthorizationModelRequest{StoreId: st.id, Id: a.id})
			if err != nil {
				return fw.Failf("C17/accepted-model-not-readable", "%s: ReadAuthorizationModel(%s): %v", at, a.id, err)
			}
			if exp := a.sub.expectedModel(a.id); !proto.Equal(resp.GetAuthorizationModel(), exp) {
				return fw.Failf("C17/read-model-changed", "%s: ReadAuthorizationModel(%s) differs from the submission\n got: %s\nwant: %s", at, a.id, dump(resp.GetAuthorizationModel()), dump(exp))
			}
			if len(st.acc) >= 2 && step.Idx%len(st.acc) < len(st.acc)-1 {
				cls("read:older-model")
			}

		case OpReadModels:
			if f := verifyList(st, step.PageSize, at); f != nil {
				return f
			}
			if len(st.acc) >= 2 {
				cls("list:>=2-models")
			}

		case OpCheck:
			lat := st.latest()
			ask := func(v int) (bool, error, *capture) {
				ctx, cap := capCtx()
				resp, err := s.Srv.Check(ctx, &openfgav1.CheckRequest{StoreId: st.id,
					TupleKey: &openfgav1.CheckRequestTupleKey{Object: probeObj, Relation: "viewer", User: probeUser}, Context: vxCtx(v)})
				return resp.GetAllowed(), err, cap
			}
			if lat == nil {
				_, err, cap := ask(1)
				if err == nil {
					return fw.Failf("C17/model-resolved-in-empty-store", "%s: Check without model id succeeded in a store without models", at)
				}
				if f := verifyHeader(st, cap, "Check"); f != nil {
					return f
				}
				cls("less:no-model")
				continue
			}
			allowed, err, cap := ask(lat.sub.Version)
			if err != nil {
				return fw.Failf("C17/model-less-check-error", "%s: Check without model id: %v (latest model %s)", at, err, lat.id)
			}
			if f := verifyHeader(st, cap, "Check"); f != nil {
				return f
			}
			if !allowed {
				return fw.Failf("C17/model-less-answer-not-latest", "%s: Check without model id with vx=%d (version of the latest model %s) is denied: another model version was evaluated", at, lat.sub.Version, lat.id)
			}
			if st.lastOther != 0 && st.lastOther != lat.sub.Version {
				allowed, err, cap := ask(st.lastOther)
				if err != nil {
					return fw.Failf("C17/model-less-check-error", "%s: Check without model id: %v", at, err)
				}
				if f := verifyHeader(st, cap, "Check"); f != nil {
					return f
				}
				if allowed {
					return fw.Failf("C17/model-less-answer-not-latest", "%s: Check without model id with vx=%d (a submission that is not the latest accepted model, which is version %d) is allowed", at, st.lastOther, lat.sub.Version)
				}
			}
			markLess(st)
			cls("less:check")

		case OpListObj:
			lat := st.latest()
			ask := func(v int) ([]string, error, *capture) {
				ctx, cap := capCtx()
				resp, err := s.Srv.ListObjects(ctx, &openfgav1.ListObjectsRequest{StoreId: st.id, Type: probeType, Relation: "viewer", User: probeUser, Context: vxCtx(v)})
				objs := append([]string{}, resp.GetObjects()...)
				sort.Strings(objs)
				return objs, err, cap
			}
			if lat == nil {
				_, err, cap := ask(1)
				if err == nil {
					return fw.Failf("C17/model-resolved-in-empty-store", "%s: ListObjects without model id succeeded in a store without models", at)
				}
				if f := verifyHeader(st, cap, "ListObjects"); f != nil {
					return f
				}
				cls("less:no-model")
				continue
			}
			objs, err, cap := ask(lat.sub.Version)
			if err != nil {
				return fw.Failf("C17/model-less-listobjects-error", "%s: ListObjects without model id: %v (latest model %s)", at, err, lat.id)
			}
			if f := verifyHeader(st, cap, "ListObjects"); f != nil {
				return f
			}
			if len(objs) != 1 || objs[0] != probeObj {
				return fw.Failf("C17/model-less-answer-not-latest", "%s: ListObjects without model id with vx=%d (version of the latest model) = %v, expected [%s]", at, lat.sub.Version, objs, probeObj)
			}
			if st.lastOther != 0 && st.lastOther != lat.sub.Version {
				objs, err, cap := ask(st.lastOther)
				if err != nil {
					return fw.Failf("C17/model-less-listobjects-error", "%s: ListObjects without model id: %v", at, err)
				}
				if f := verifyHeader(st, cap, "ListObjects"); f != nil {
					return f
				}
				if len(objs) != 0 {
					return fw.Failf("C17/model-less-answer-not-latest", "%s: ListObjects without model id with vx=%d (not the latest accepted version %d) = %v, expected none", at, st.lastOther, lat.sub.Version, objs)
				}
			}
			markLess(st)
			cls("less:list-objects")

		case OpWrite:
			lat := st.latest()
			write := func(v int) (error, *capture) {
				ctx, cap := capCtx()
				_, err := s.Srv.Write(ctx, &openfgav1.WriteRequest{StoreId: st.id, Writes: &openfgav1.WriteRequestWrites{TupleKeys: []*openfgav1.TupleKey{
					{Object: fmt.Sprintf("%s:w%d", probeType, si), Relation: onlyRel(v), User: probeUser}}}})
				return err, cap
			}
			if lat == nil {
				err, cap := write(1)
				if err == nil {
					return fw.Failf("C17/model-resolved-in-empty-store", "%s: Write without model id succeeded in a store without models", at)
				}
				if f := verifyHeader(st, cap, "Write"); f != nil {
					return f
				}
				cls("less:no-model")
				continue
			}
			if st.lastOther != 0 && st.lastOther != lat.sub.Version {
				// a tuple that only another submission's model allows
				err, cap := write(st.lastOther)
				if f := verifyHeader(st, cap, "Write"); f != nil {
					return f
				}
				if err == nil {
					return fw.Failf("C17/model-less-answer-not-latest", "%s: Write without model id accepted a tuple on relation %s, which the latest accepted model (version %d) does not define", at, onlyRel(st.lastOther), lat.sub.Version)
				}
			}
			err, cap := write(lat.sub.Version)
			if f := verifyHeader(st, cap, "Write"); f != nil {
				return f
			}
			if err != nil {
				return fw.Failf("C17/model-less-answer-not-latest", "%s: Write without model id rejected a tuple on relation %s, which the latest accepted model %s defines: %v", at, onlyRel(lat.sub.Version), lat.id, err)
			}
			markLess(st)
			cls("less:write")
		}
	}
	// final sweep: everything accepted is still readable unchanged, listing is right.
	for i, st := range stores {
		for _, a := range st.acc {
			resp, err := s.Srv.ReadAuthorizationModel(context.Background(), &openfgav1.ReadAuthorizationModelRequest{StoreId: st.id, Id: a.id})
			if err != nil {
				return fw.Failf("C17/accepted-model-not-readable", "final: ReadAuthorizationModel(%s) in store %d: %v", a.id, i, err)
			}
			if exp := a.sub.expectedModel(a.id); !proto.Equal(resp.GetAuthorizationModel(), exp) {
				return fw.Failf("C17/read-model-changed", "final: ReadAuthorizationModel(%s) in store %d differs from the submission\n got: %s\nwant: %s", a.id, i, dump(resp.GetAuthorizationModel()), dump(exp))
			}
		}
		if f := verifyList(st, 2, fmt.Sprintf("final listing of store %d", i)); f != nil {
			return f
		}
	}

	// NT: a store with >= 2 accepted models, a model-less request between two
	// consecutive ones and one after the newer.
	nt := false
	for _, st := range stores {
		for i := 1; i < len(st.acc); i++ {
			if st.lessAfter[i-1] && st.lessAfter[i] {
				nt = true
			}
		}
		if len(st.acc) >= 3 {
			cls("store:>=3-models")
		}
	}
	if c.Stores == 2 && len(stores[0].acc) > 0 && len(stores[1].acc) > 0 {
		cls("two-stores-with-models")
	}
	if nRejected > 0 && nAccepted > 0 {
		cls("accepted+rejected")
	}
	var sample any
	if nt {
		var ops []string
		for _, st := range c.Steps {
			o := fmt.Sprintf("%s@%d", st.Op, st.Store)
			if st.Sub != nil && st.Sub.Rule != "" {
				o += "[mutant:" + st.Sub.Rule + "]"
			}
			ops = append(ops, o)
		}
		sample = map[string]any{"steps": ops, "accepted": nAccepted, "rejected": nRejected}
	}
	if deferred != nil {
		return deferred
	}
	var cl []string
	for k := range classes {
		cl = append(cl, k)
	}
	sort.Strings(cl)
	env.Rec.Case(c, nt, sample, cl...)
	env.Rec.Add("models_accepted", nAccepted)
	env.Rec.Add("models_rejected", nRejected)
	return nil
}

func TestC17(t *testing.T) { fw.Run(t, "C17", genCase, checkC17) }
