package p17

import (
	"context"
	"fmt"
	"sync"
	"testing"

	openfgav1 "github.com/openfga/api/proto/openfga/v1"
	"pgregory.net/rapid"

	"github.com/openfga/openfga/pkg/server"
	"github.com/openfga/openfga/verifharness/fw"
	"github.com/openfga/openfga/verifharness/m"
	"github.com/openfga/openfga/verifharness/sut"
)

// TestC17ColdLatest — model-less requests resolve to the latest model of THEIR
// store, also when nothing is cached yet and several stores are resolved at
// the same time.
//
// A fresh server (cold model and typesystem caches) over 2-4 stores; store i
// has 1-3 models, each defining only the relation "only<i>_<k>" on type doc,
// so a typesystem of another store or of an older model cannot answer the
// store's probe. Then G goroutines issue model-less Checks of the store's own
// probe against all stores at once (real scheduler), twice. Oracle: every
// Check succeeds with allowed=true (the probe tuple is stored) and the
// "Openfga-Authorization-Model-Id" header names the latest model of that
// store; afterwards every older model id of a store is still readable and no
// model id of store A resolves through store B.
//
// Non-trivial: >= 2 stores and >= 4 concurrent requests.

type ColdCase struct {
	Models  []int `json:"models"` // number of models per store
	Workers int   `json:"workers"`
}

func genCold(t *rapid.T) ColdCase {
	c := ColdCase{Workers: rapid.IntRange(4, 16).Draw(t, "workers")}
	for i, n := 0, rapid.IntRange(2, 4).Draw(t, "stores"); i < n; i++ {
		c.Models = append(c.Models, rapid.IntRange(1, 3).Draw(t, "models"))
	}
	return c
}

func coldModel(i, k int) *m.Model {
	return &m.Model{Types: []m.TypeDef{{Name: "user"}, {Name: "doc", Relations: []m.Relation{
		{Name: fmt.Sprintf("only%d_%d", i, k), Rewrite: &m.Rewrite{Kind: m.This}, Restr: []m.Restriction{{Type: "user"}}}}}}}
}

func checkCold(env *fw.Env, c ColdCase) *fw.Failure {
	if c.Workers == 0 || len(c.Models) == 0 {
		env.Rec.Discard("replay-file-of-another-test")
		return nil
	}
	// models and tuples are planted through a first server; the server under test is created afterwards and is cold
	seed := sut.New()
	stores := make([]string, len(c.Models))
	latest := make([]string, len(c.Models))
	all := make([][]string, len(c.Models))
	for i, n := range c.Models {
		stores[i] = seed.CreateStore("verif")
		for k := 0; k < n; k++ {
			id, err := seed.WriteModel(stores[i], coldModel(i, k))
			if err != nil {
				return fw.Failf("harness/model", "%v", err)
			}
			all[i] = append(all[i], id)
			latest[i] = id
		}
		probe := m.Tuple{Object: "doc:1", Relation: fmt.Sprintf("only%d_%d", i, n-1), User: "user:1"}
		if err := seed.WriteRaw(stores[i], []m.Tuple{probe}); err != nil {
			return fw.Failf("harness/tuple", "%v", err)
		}
	}
	s := sut.NewWithDS(seed.DS, server.WithTransport(capTransport{}))
	defer s.Close()
	type res struct {
		store   int
		allowed bool
		ids     []string
		err     error
	}
	for round := 0; round < 2; round++ {
		out := make(chan res, c.Workers)
		start := make(chan struct{})
		var wg sync.WaitGroup
		for w := 0; w < c.Workers; w++ {
			wg.Add(1)
			go func(i int) {
				defer wg.Done()
				<-start
				ctx, cp := capCtx()
				resp, err := s.Srv.Check(ctx, &openfgav1.CheckRequest{StoreId: stores[i], TupleKey: &openfgav1.CheckRequestTupleKey{
					Object: "doc:1", Relation: fmt.Sprintf("only%d_%d", i, c.Models[i]-1), User: "user:1"}})
				out <- res{i, resp.GetAllowed(), cp.modelIDs(), err}
			}(w % len(c.Models))
		}
		close(start)
		wg.Wait()
		close(out)
		for r := range out {
			if r.err != nil {
				return fw.Failf("", "round %d: model-less Check on store %d of %d (latest model %s) failed: %v", round, r.store, len(stores), latest[r.store], r.err)
			}
			if len(r.ids) != 1 || r.ids[0] != latest[r.store] {
				return fw.Failf("", "round %d: model-less Check on store %d resolved model %v, the store's latest model is %s", round, r.store, r.ids, latest[r.store])
			}
			if !r.allowed {
				return fw.Failf("", "round %d: model-less Check on store %d answered false for the stored probe tuple", round, r.store)
			}
		}
	}
	for i := range stores {
		for j := range stores {
			for _, id := range all[j] {
				_, err := s.Srv.ReadAuthorizationModel(context.Background(), &openfgav1.ReadAuthorizationModelRequest{StoreId: stores[i], Id: id})
				if i == j && err != nil {
					return fw.Failf("", "ReadAuthorizationModel(store %d, its own model %s) failed: %v", i, id, err)
				}
				_, cerr := s.Srv.Check(context.Background(), &openfgav1.CheckRequest{StoreId: stores[i], AuthorizationModelId: id,
					TupleKey: &openfgav1.CheckRequestTupleKey{Object: "doc:1", Relation: "x", User: "user:1"}})
				if i != j && (err == nil || cerr == nil || code(cerr) != "code2001") {
					return fw.Failf("", "model %s of store %d resolves through store %d (ReadAuthorizationModel err=%v, Check err=%v)", id, j, i, err, cerr)
				}
			}
		}
	}
	env.Rec.Case(c, len(stores) >= 2 && c.Workers >= 4, map[string]any{"models_per_store": c.Models, "workers": c.Workers},
		fmt.Sprintf("stores:%d", len(stores)), fmt.Sprintf("workers>=8:%v", c.Workers >= 8))
	return nil
}

func TestC17ColdLatest(t *testing.T) { fw.Run(t, "C17", genCold, checkCold) }
