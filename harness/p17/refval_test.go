package p17

import (
	"github.com/openfga/openfga/verifharness/m"
)

// Reference model validator (R-modelval). It is written from the documented
// validation rules only:
//
//   - doc comment of typesystem.NewAndValidate (rules 1-4): supported schema
//     version; computed usersets name relations of the same type; tuple-to-userset
//     names a tupleset relation of the same type and a computed relation defined on
//     one of the tupleset's directly related types; no duplicate types; every type
//     restriction names a defined type / type#relation; a relation is assignable
//     if and only if it has a non-empty list of type restrictions;
//   - doc comment of validateTypeRestrictions rule 4 and the public modelling docs:
//     a tupleset relation is a plain direct relation whose restrictions are direct
//     object types (no rewrite, no wildcard, no userset);
//   - documented errors of pkg/typesystem/error.go: "self" and "this" are reserved
//     (ErrReservedKeywords); a rewrite that is self-referencing through computed
//     relationships is a cycle (ErrCycle); a relation that is not reachable through
//     a direct edge has no entrypoint (ErrNoEntrypoints); a restriction's condition
//     must be defined (ErrNoConditionForRelation);
//   - conditions: map key equals the condition name and the expression compiles.
//
// verdict: "valid", "invalid" or "ambiguous" (the documentation does not decide:
// only the entrypoint of the subtracted branch of a difference).
type verdict struct {
	Kind string // valid | invalid | ambiguous
	Rule string // first broken rule (invalid only)
}

func refValidate(s *Sub) verdict {
	mo := s.full()
	inv := func(r string) verdict { return verdict{"invalid", r} }
	if s.Schema != "1.1" {
		return inv("schema-version")
	}
	seen := map[string]bool{}
	for _, td := range mo.Types {
		if seen[td.Name] {
			return inv("duplicate-type")
		}
		seen[td.Name] = true
	}
	for _, td := range mo.Types {
		if td.Name == "" || td.Name == "self" || td.Name == "this" {
			return inv("reserved-name")
		}
		for _, r := range td.Relations {
			if r.Name == "" || r.Name == "self" || r.Name == "this" {
				return inv("reserved-name")
			}
		}
	}
	conds := map[string]bool{}
	for _, c := range mo.Conds {
		conds[c.Name] = true
	}
	for _, rc := range s.RawConds {
		conds[rc.Key] = true
	}
	for _, td := range mo.Types {
		for _, r := range td.Relations {
			bad := ""
			r.Rewrite.Walk(func(n *m.Rewrite) {
				if bad != "" {
					return
				}
				switch n.Kind {
				case m.Computed:
					if n.Rel == r.Name {
						bad = "computed-cycle"
					} else if mo.Relation(td.Name, n.Rel) == nil {
						bad = "undefined-computed"
					}
				case m.TTU:
					ts := mo.Relation(td.Name, n.Tupleset)
					if ts == nil {
						bad = "undefined-tupleset"
						return
					}
					if ts.Rewrite.Kind != m.This {
						bad = "tupleset-rewrite"
						return
					}
					found := false
					for _, re := range ts.Restr {
						if mo.Relation(re.Type, n.Rel) != nil {
							found = true
						}
					}
					if !found {
						bad = "ttu-computed-undefined"
					}
				case m.Union, m.Intersection:
					if len(n.Children) < 2 {
						bad = "malformed-rewrite"
					}
				}
			})
			if bad != "" {
				return inv(bad)
			}
			assignable := r.Rewrite.HasThis()
			if assignable && len(r.Restr) == 0 {
				return inv("assignable-no-restrictions")
			}
			if !assignable && len(r.Restr) > 0 {
				return inv("nonassignable-with-restrictions")
			}
			for _, re := range r.Restr {
				if mo.Type(re.Type) == nil {
					return inv("restriction-undefined-type")
				}
				if re.Rel != "" && mo.Relation(re.Type, re.Rel) == nil {
					return inv("restriction-undefined-relation")
				}
				if (re.Rel != "" || re.Wildcard) && mo.IsTupleset(td.Name, r.Name) {
					return inv("tupleset-restriction")
				}
				if re.Cond != "" && !conds[re.Cond] {
					return inv("restriction-undefined-condition")
				}
			}
		}
	}
	// entrypoints: least fixpoint of "the relation can have a member".
	strict := entrypoints(mo, true)
	loose := entrypoints(mo, false)
	for _, td := range mo.Types {
		for _, r := range td.Relations {
			if !loose[td.Name+"#"+r.Name] {
				return inv("no-entrypoint")
			}
		}
	}
	// cycles through computed usersets of the same type.
	for _, td := range mo.Types {
		adj := map[string][]string{}
		for _, r := range td.Relations {
			r.Rewrite.Walk(func(n *m.Rewrite) {
				if n.Kind == m.Computed {
					adj[r.Name] = append(adj[r.Name], n.Rel)
				}
			})
		}
		state := map[string]int{}
		var dfs func(string) bool
		dfs = func(x string) bool {
			state[x] = 1
			for _, y := range adj[x] {
				if state[y] == 1 || (state[y] == 0 && dfs(y)) {
					return true
				}
			}
			state[x] = 2
			return false
		}
		for _, r := range td.Relations {
			if state[r.Name] == 0 && dfs(r.Name) {
				return inv("computed-cycle")
			}
		}
	}
	for _, rc := range s.RawConds {
		if rc.Breaks == "key" || rc.Key != rc.Name {
			return inv("condition-key-mismatch")
		}
		if rc.Breaks != "" {
			return inv("condition-" + rc.Breaks)
		}
	}
	for _, td := range mo.Types {
		for _, r := range td.Relations {
			if !strict[td.Name+"#"+r.Name] {
				return verdict{Kind: "ambiguous", Rule: "entrypoint-of-subtrahend"}
			}
		}
	}
	return verdict{Kind: "valid"}
}

// entrypoints computes, as a least fixpoint, which relations can have a
// member. needSubtract selects the reading in which the subtracted branch of a
// difference must have an entrypoint too.
func entrypoints(mo *m.Model, needSubtract bool) map[string]bool {
	val := map[string]bool{}
	var eval func(td *m.TypeDef, r *m.Relation, rw *m.Rewrite) bool
	eval = func(td *m.TypeDef, r *m.Relation, rw *m.Rewrite) bool {
		switch rw.Kind {
		case m.This:
			for _, re := range r.Restr {
				if re.Rel == "" { // object or wildcard
					return true
				}
				if val[re.Type+"#"+re.Rel] {
					return true
				}
			}
			return false
		case m.Computed:
			return val[td.Name+"#"+rw.Rel]
		case m.TTU:
			ts := mo.Relation(td.Name, rw.Tupleset)
			if ts == nil {
				return false
			}
			for _, re := range ts.Restr {
				if val[re.Type+"#"+rw.Rel] {
					return true
				}
			}
			return false
		case m.Union:
			for _, c := range rw.Children {
				if eval(td, r, c) {
					return true
				}
			}
			return false
		case m.Intersection:
			for _, c := range rw.Children {
				if !eval(td, r, c) {
					return false
				}
			}
			return true
		case m.Difference:
			if !eval(td, r, rw.Children[0]) {
				return false
			}
			return !needSubtract || eval(td, r, rw.Children[1])
		}
		return false
	}
	for changed := true; changed; {
		changed = false
		for ti := range mo.Types {
			td := &mo.Types[ti]
			for ri := range td.Relations {
				r := &td.Relations[ri]
				k := td.Name + "#" + r.Name
				if !val[k] && eval(td, r, r.Rewrite) {
					val[k] = true
					changed = true
				}
			}
		}
	}
	return val
}
