package p17

import (
	"encoding/json"

	"pgregory.net/rapid"

	"github.com/openfga/openfga/verifharness/fw"
	"github.com/openfga/openfga/verifharness/gen"
	"github.com/openfga/openfga/verifharness/m"
)

func cloneModel(mo *m.Model) *m.Model {
	b, err := json.Marshal(mo)
	if err != nil {
		panic(err)
	}
	out := &m.Model{}
	if err := json.Unmarshal(b, out); err != nil {
		panic(err)
	}
	return out
}

func pick[T any](t *rapid.T, label string, xs []T) T {
	return xs[rapid.IntRange(0, len(xs)-1).Draw(t, label)]
}

// mutation rules; every one is a documented validation rule (see refval_test.go).
var rules = []string{
	"undefined-computed",
	"undefined-tupleset",
	"ttu-computed-undefined",
	"restriction-undefined-type",
	"restriction-undefined-relation",
	"duplicate-type",
	"computed-cycle",
	"no-entrypoint",
	"tupleset-rewrite",
	"tupleset-wildcard",
	"tupleset-userset",
	"reserved-name",
	"schema-version",
	"condition-compile",
	"condition-key-mismatch",
	"assignable-no-restrictions",
	"nonassignable-with-restrictions",
}

// objectTypeIdx returns the indices of types that have relations.
func objectTypeIdx(mo *m.Model) []int {
	var out []int
	for i, td := range mo.Types {
		if len(td.Relations) > 0 {
			out = append(out, i)
		}
	}
	return out
}

func orWith(rw *m.Rewrite, leaf *m.Rewrite) *m.Rewrite {
	if rw.Kind == m.Union {
		rw.Children = append(rw.Children, leaf)
		return rw
	}
	return &m.Rewrite{Kind: m.Union, Children: []*m.Rewrite{rw, leaf}}
}

// mutate returns an invalid-by-construction variant of base that breaks rule.
func mutate(t *rapid.T, base *m.Model, rule string) *Sub {
	mo := cloneModel(base)
	s := &Sub{Model: mo, Schema: "1.1", Rule: rule}
	ots := objectTypeIdx(mo)
	ti := pick(t, "mutType", ots)
	td := &mo.Types[ti]
	ri := rapid.IntRange(0, len(td.Relations)-1).Draw(t, "mutRel")
	rel := &td.Relations[ri]
	// a relation of the chosen type with a direct leaf (every generated type has one in practice)
	direct := func() *m.Relation {
		var c []int
		for i := range td.Relations {
			if td.Relations[i].Rewrite.HasThis() {
				c = append(c, i)
			}
		}
		if len(c) == 0 {
			td.Relations = append(td.Relations, m.Relation{Name: "zdirect", Rewrite: &m.Rewrite{Kind: m.This}, Restr: []m.Restriction{{Type: "user"}}})
			return &td.Relations[len(td.Relations)-1]
		}
		return &td.Relations[pick(t, "mutDirectRel", c)]
	}
	// a tupleset relation that is really used by a tuple-to-userset of the type, or a fresh pair
	usedTupleset := func() *m.Relation {
		var c []int
		for i := range td.Relations {
			if mo.IsTupleset(td.Name, td.Relations[i].Name) {
				c = append(c, i)
			}
		}
		if len(c) == 0 || rapid.IntRange(0, 3).Draw(t, "freshTupleset") == 0 {
			td.Relations = append(td.Relations,
				m.Relation{Name: "zts", Rewrite: &m.Rewrite{Kind: m.This}, Restr: []m.Restriction{{Type: td.Name}}},
				m.Relation{Name: "zvia", Rewrite: &m.Rewrite{Kind: m.TTU, Tupleset: "zts", Rel: td.Relations[0].Name}})
			return &td.Relations[len(td.Relations)-2]
		}
		return &td.Relations[pick(t, "mutTupleset", c)]
	}
	switch rule {
	case "undefined-computed":
		rel.Rewrite = orWith(rel.Rewrite, &m.Rewrite{Kind: m.Computed, Rel: "ghost"})
	case "undefined-tupleset":
		rel.Rewrite = orWith(rel.Rewrite, &m.Rewrite{Kind: m.TTU, Tupleset: "ghostset", Rel: td.Relations[0].Name})
	case "ttu-computed-undefined":
		ts := usedTupleset()
		name := ts.Name
		// (usedTupleset may have re-allocated the slice)
		rel = &td.Relations[ri]
		rel.Rewrite = orWith(rel.Rewrite, &m.Rewrite{Kind: m.TTU, Tupleset: name, Rel: "ghost"})
	case "restriction-undefined-type":
		d := direct()
		if rapid.Bool().Draw(t, "ghostWildcard") {
			d.Restr = append(d.Restr, m.Restriction{Type: "ghost", Wildcard: true})
		} else {
			d.Restr = append(d.Restr, m.Restriction{Type: "ghost"})
		}
	case "restriction-undefined-relation":
		d := direct()
		d.Restr = append(d.Restr, m.Restriction{Type: pick(t, "ghostRelType", mo.Types).Name, Rel: "ghost"})
	case "duplicate-type":
		i := rapid.IntRange(0, len(mo.Types)-1).Draw(t, "dupType")
		dup := mo.Types[i]
		if rapid.Bool().Draw(t, "dupEmpty") {
			dup = m.TypeDef{Name: dup.Name}
		}
		pos := rapid.IntRange(0, len(mo.Types)).Draw(t, "dupPos")
		mo.Types = append(mo.Types[:pos:pos], append([]m.TypeDef{dup}, mo.Types[pos:]...)...)
	case "computed-cycle":
		n := rapid.IntRange(2, 3).Draw(t, "cycleLen")
		names := []string{"zca", "zcb", "zcc"}[:n]
		for i, nm := range names {
			td.Relations = append(td.Relations, m.Relation{Name: nm, Rewrite: &m.Rewrite{Kind: m.Computed, Rel: names[(i+1)%n]}})
		}
	case "no-entrypoint":
		switch rapid.IntRange(0, 2).Draw(t, "noEntryKind") {
		case 0: // only reachable through itself
			td.Relations = append(td.Relations, m.Relation{Name: "zne", Rewrite: &m.Rewrite{Kind: m.This}, Restr: []m.Restriction{{Type: td.Name, Rel: "zne"}}})
		case 1: // two relations that only feed each other
			td.Relations = append(td.Relations,
				m.Relation{Name: "zne", Rewrite: &m.Rewrite{Kind: m.This}, Restr: []m.Restriction{{Type: td.Name, Rel: "zne2"}}},
				m.Relation{Name: "zne2", Rewrite: &m.Rewrite{Kind: m.This}, Restr: []m.Restriction{{Type: td.Name, Rel: "zne"}}})
		default: // an intersection with a branch that has no entrypoint
			td.Relations = append(td.Relations,
				m.Relation{Name: "zne", Rewrite: &m.Rewrite{Kind: m.This}, Restr: []m.Restriction{{Type: td.Name, Rel: "zne"}}},
				m.Relation{Name: "zne2", Rewrite: &m.Rewrite{Kind: m.Intersection, Children: []*m.Rewrite{{Kind: m.This}, {Kind: m.Computed, Rel: "zne"}}}, Restr: []m.Restriction{{Type: "user"}}})
		}
	case "tupleset-rewrite":
		ts := usedTupleset()
		other := ""
		for _, r := range td.Relations {
			if r.Name != ts.Name && r.Name != "zvia" {
				other = r.Name
				break
			}
		}
		if other == "" { // cannot happen: every generated object type has a regular relation
			panic("no second relation")
		}
		if rapid.Bool().Draw(t, "tuplesetPureComputed") {
			ts.Rewrite, ts.Restr = &m.Rewrite{Kind: m.Computed, Rel: other}, nil
		} else {
			ts.Rewrite = orWith(ts.Rewrite, &m.Rewrite{Kind: m.Computed, Rel: other})
		}
	case "tupleset-wildcard":
		ts := usedTupleset()
		ts.Restr = append(ts.Restr, m.Restriction{Type: "user", Wildcard: true})
	case "tupleset-userset":
		ts := usedTupleset()
		// a relation of the same type that is not the tupleset itself
		other := ""
		for _, r := range td.Relations {
			if r.Name != ts.Name && r.Rewrite.Kind != m.TTU {
				other = r.Name
				break
			}
		}
		if other == "" {
			other = ts.Name
		}
		ts.Restr = append(ts.Restr, m.Restriction{Type: td.Name, Rel: other})
	case "reserved-name":
		word := pick(t, "reservedWord", []string{"self", "this"})
		if rapid.Bool().Draw(t, "reservedIsType") {
			mo.Types = append(mo.Types, m.TypeDef{Name: word})
		} else {
			td.Relations = append(td.Relations, m.Relation{Name: word, Rewrite: &m.Rewrite{Kind: m.This}, Restr: []m.Restriction{{Type: "user"}}})
		}
	case "schema-version":
		s.Schema = pick(t, "badSchema", []string{"1.0", "1.3", "2.0", "0.1", "", "1", "v1.1", "1.10", "1.1 "})
	case "condition-compile":
		bad := pick(t, "badExpr", []RawCond{
			{Expr: "zx <", Params: []m.Param{{Name: "zx", Type: "int"}}},                                         // syntax error
			{Expr: "zy < 1", Params: []m.Param{{Name: "zx", Type: "int"}}},                                       // undeclared identifier
			{Expr: "zx < \"a\"", Params: []m.Param{{Name: "zx", Type: "int"}}},                                   // no matching overload
			{Expr: "zx.nope()", Params: []m.Param{{Name: "zx", Type: "string"}}},                                 // unknown function
			{Expr: "zx == 1 &&", Params: []m.Param{{Name: "zx", Type: "int"}}},                                   // syntax error
			{Expr: "zx in zl", Params: []m.Param{{Name: "zx", Type: "int"}, {Name: "zl", Type: "list<string>"}}}, // element type mismatch
		})
		bad.Key, bad.Name, bad.Breaks = "zbad", "zbad", "compile"
		s.RawConds = append(s.RawConds, bad)
		if rapid.Bool().Draw(t, "badCondReferenced") {
			d := direct()
			d.Restr = append(d.Restr, m.Restriction{Type: "user", Cond: "zbad"})
		}
	case "condition-key-mismatch":
		rc := RawCond{Key: "zkey", Name: "zname", Expr: "zx < 1", Params: []m.Param{{Name: "zx", Type: "int"}}, Breaks: "key"}
		s.RawConds = append(s.RawConds, rc)
		if rapid.Bool().Draw(t, "keyCondReferenced") {
			d := direct()
			d.Restr = append(d.Restr, m.Restriction{Type: "user", Cond: pick(t, "keyOrName", []string{"zkey", "zname"})})
		}
	case "assignable-no-restrictions":
		if rapid.Bool().Draw(t, "bareNew") {
			td.Relations = append(td.Relations, m.Relation{Name: "zbare", Rewrite: &m.Rewrite{Kind: m.This}})
		} else {
			direct().Restr = nil
		}
	case "nonassignable-with-restrictions":
		td.Relations = append(td.Relations, m.Relation{Name: "zna", Rewrite: &m.Rewrite{Kind: m.Computed, Rel: td.Relations[0].Name}, Restr: []m.Restriction{{Type: "user"}}})
	default:
		panic("unknown rule " + rule)
	}
	return s
}

func genCase(t *rapid.T) Case {
	c := Case{Stores: rapid.IntRange(1, 2).Draw(t, "stores")}
	maxSteps := 14
	if fw.TierIsThorough() {
		maxSteps = 20
	}
	n := rapid.IntRange(4, maxSteps).Draw(t, "nSteps")
	o := gen.DefaultOpts()
	version := 0
	writes := make([]int, c.Stores)
	for i := 0; i < n; i++ {
		st := Step{Store: rapid.IntRange(0, c.Stores-1).Draw(t, "store")}
		// (rapid favours small values: the frequent outcomes sit at the low end)
		k := rapid.IntRange(0, 99).Draw(t, "op")
		if i == 0 {
			k = 20
		}
		switch {
		case k < 20:
			st.Op = OpCheck
		case k < 55:
			st.Op = OpWriteModel
			version++
			base := gen.Model(t, o)
			if rapid.IntRange(0, 99).Draw(t, "mutant") >= 55 {
				st.Sub = mutate(t, base, pick(t, "rule", rules))
			} else {
				// mostly valid draws: redraw (a bounded number of times) when the reference validator objects
				for try := 0; try < 3 && refValidate(&Sub{Model: base, Schema: "1.1", Version: version}).Kind == "invalid" &&
					rapid.IntRange(0, 3).Draw(t, "redrawInvalid") < 3; try++ {
					base = gen.Model(t, o)
				}
				st.Sub = &Sub{Model: base, Schema: "1.1"}
			}
			st.Sub.Version = version
			writes[st.Store]++
		case k < 65:
			st.Op = OpListObj
		case k < 75:
			st.Op = OpWrite
		case k < 88:
			st.Op = OpReadModel
			st.Idx = rapid.IntRange(-1, 5).Draw(t, "idx")
		default:
			st.Op = OpReadModels
			st.PageSize = rapid.IntRange(0, 3).Draw(t, "pageSize")
		}
		c.Steps = append(c.Steps, st)
	}
	return c
}
