package p17

import (
	"fmt"

	openfgav1 "github.com/openfga/api/proto/openfga/v1"

	"github.com/openfga/openfga/verifharness/conv"
	"github.com/openfga/openfga/verifharness/m"
)

// RawCond is a condition given as raw CEL source (used for the mutants that
// the harness AST cannot express: an expression that does not compile, a map
// key that differs from the condition name).
type RawCond struct {
	Key    string    `json:"key"`
	Name   string    `json:"name"`
	Expr   string    `json:"expr"`
	Params []m.Param `json:"params,omitempty"`
	// Breaks is the rule this condition breaks ("compile", "key").
	Breaks string `json:"breaks"`
}

// Sub is one model submission.
type Sub struct {
	Model    *m.Model  `json:"model"`
	Schema   string    `json:"schema"`              // "1.1" unless the mutant breaks the schema-version rule
	RawConds []RawCond `json:"raw_conds,omitempty"` // appended to the conditions map
	// Rule is "" for an unmutated draw of the shared generator, otherwise the
	// documented validation rule the mutant breaks by construction.
	Rule string `json:"rule,omitempty"`
	// Version identifies the submission inside the case (1,2,...). The check
	// adds the probe type
	//     type vprobe: viewer: [user with vcond]; only<Version>: [user]
	//     condition vcond(vx: int) { vx == <Version> }
	// so that answers of model-less requests identify the model version used.
	Version int `json:"version"`
}

// Step kinds.
const (
	OpWriteModel = "write_model"
	OpReadModel  = "read_model"   // ReadAuthorizationModel(id) for an accepted id (Idx) or an unknown id (Idx<0)
	OpReadModels = "read_models"  // all pages with PageSize
	OpCheck      = "check"        // model-less Check
	OpListObj    = "list_objects" // model-less ListObjects
	OpWrite      = "write"        // model-less Write
)

type Step struct {
	Op       string `json:"op"`
	Store    int    `json:"store"`
	Sub      *Sub   `json:"sub,omitempty"`
	Idx      int    `json:"idx,omitempty"`
	PageSize int    `json:"page_size,omitempty"`
}

type Case struct {
	Stores int    `json:"stores"`
	Steps  []Step `json:"steps"`
}

const (
	probeType = "vprobe"
	probeCond = "vcond"
	probeObj  = "vprobe:1"
	probeUser = "user:a"
)

func onlyRel(version int) string { return fmt.Sprintf("only%d", version) }

// withProbe returns a copy of the model's type list/conditions extended with
// the version probe. The input is not modified.
func withProbe(mo *m.Model, version int) *m.Model {
	out := &m.Model{}
	out.Types = append(out.Types, mo.Types...)
	out.Conds = append(out.Conds, mo.Conds...)
	out.Types = append(out.Types, m.TypeDef{Name: probeType, Relations: []m.Relation{
		{Name: "viewer", Rewrite: &m.Rewrite{Kind: m.This}, Restr: []m.Restriction{{Type: "user", Cond: probeCond}}},
		{Name: onlyRel(version), Rewrite: &m.Rewrite{Kind: m.This}, Restr: []m.Restriction{{Type: "user"}}},
	}})
	out.Conds = append(out.Conds, m.Condition{Name: probeCond, Params: []m.Param{{Name: "vx", Type: "int"}},
		Expr: m.Cmp("==", m.Var("vx"), m.Lit("int", version))})
	return out
}

// full is the model actually submitted (with probe).
func (s *Sub) full() *m.Model { return withProbe(s.Model, s.Version) }

// request builds the API request of a submission.
func (s *Sub) request(storeID string) *openfgav1.WriteAuthorizationModelRequest {
	mo := s.full()
	req := &openfgav1.WriteAuthorizationModelRequest{
		StoreId:         storeID,
		SchemaVersion:   s.Schema,
		TypeDefinitions: conv.TypeDefs(mo),
		Conditions:      conv.Conditions(mo),
	}
	for _, rc := range s.RawConds {
		if req.Conditions == nil {
			req.Conditions = map[string]*openfgav1.Condition{}
		}
		c := &openfgav1.Condition{Name: rc.Name, Expression: rc.Expr, Parameters: map[string]*openfgav1.ConditionParamTypeRef{}}
		for _, p := range rc.Params {
			c.Parameters[p.Name] = conv.ParamType(p.Type)
		}
		req.Conditions[rc.Key] = c
	}
	return req
}

// expectedModel is what ReadAuthorizationModel must return for an accepted
// submission: the submitted type definitions, conditions and schema version
// under the assigned id (built afresh from the case, so it shares no memory
// with the request handed to the server).
func (s *Sub) expectedModel(id string) *openfgav1.AuthorizationModel {
	req := s.request("")
	return &openfgav1.AuthorizationModel{Id: id, SchemaVersion: req.GetSchemaVersion(), TypeDefinitions: req.GetTypeDefinitions(), Conditions: req.GetConditions()}
}
