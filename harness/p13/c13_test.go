package p13

// C13 — storage backends implement the same read semantics.
//
// Oracle (three-way): for every read call, memory == sqlite == R-store, compared
// as multisets of (object, relation, user, condition name, canonical JSON of the
// condition context). R-store (model_test.go) is the documented meaning of the
// filters in pkg/storage/storage.go. Where the documentation is silent about a
// filter combination (undocumented()), only memory vs sqlite is compared and a
// disagreement gets a "C13/undoc-..." signature.
//
// NT rule (DESIGN.md C13): a case is non-trivial when at least one of its read
// calls selects a strict non-empty subset of the store and uses >= 2 filter
// dimensions.

import (
	"fmt"
	"reflect"
	"sort"
	"strings"
	"testing"

	"github.com/openfga/openfga/verifharness/fw"
)

func describeStore(store []Tup) string {
	var rows []string
	for _, t := range store {
		rows = append(rows, "  "+t.Row())
	}
	sort.Strings(rows)
	return strings.Join(rows, "\n")
}

func describeCall(c ReadCall) string {
	conds := "nil"
	if len(c.Conds) > 0 {
		conds = fmt.Sprintf("%q", c.Conds)
	} else if c.CondsEmpty {
		conds = "[]"
	}
	switch c.Method {
	case "Read", "ReadUserTuple":
		return fmt.Sprintf("%s{Object:%q Relation:%q User:%q Conditions:%s}", c.Method, c.Object, c.Relation, c.User, conds)
	case "ReadPage":
		return fmt.Sprintf("ReadPage{Object:%q Relation:%q User:%q Conditions:%s PageSize:%d}", c.Object, c.Relation, c.User, conds, c.PageSize)
	case "ReadUsersetTuples":
		var rs []string
		for _, r := range c.Restr {
			s := r.Type
			if r.Wildcard {
				s += ":*"
			} else if r.Rel != "" {
				s += "#" + r.Rel
			}
			if r.Cond != "" {
				s += " with " + r.Cond
			}
			rs = append(rs, s)
		}
		restr := "nil"
		if len(rs) > 0 || c.RestrEmpty {
			restr = "[" + strings.Join(rs, ", ") + "]"
		}
		return fmt.Sprintf("ReadUsersetTuples{Object:%q Relation:%q AllowedUserTypeRestrictions:%s Conditions:%s}", c.Object, c.Relation, restr, conds)
	case "ReadStartingWithUser":
		var us []string
		for _, u := range c.UserFilter {
			us = append(us, fmt.Sprintf("{Object:%q Relation:%q}", u.Object, u.Relation))
		}
		ids := "nil"
		if c.HasObjectIDs {
			ids = fmt.Sprintf("SortedSet%q", c.ObjectIDs)
		}
		return fmt.Sprintf("ReadStartingWithUser{ObjectType:%q Relation:%q UserFilter:[%s] ObjectIDs:%s Conditions:%s}", c.ObjectType, c.Relation, strings.Join(us, " "), ids, conds)
	}
	return c.Method
}

func rowsText(rows []string) string {
	if len(rows) == 0 {
		return "    (nothing)"
	}
	var b []string
	for _, r := range rows {
		b = append(b, "    "+r)
	}
	return strings.Join(b, "\n")
}

func sameRows(a, b []string) bool {
	if len(a) == 0 && len(b) == 0 {
		return true
	}
	return reflect.DeepEqual(a, b)
}

// explain names the root cause(s) of backend != R-store: it looks for the
// smallest combination of known deviations from the documented meaning that
// reproduces the backend's answer exactly. The candidate deviations depend on
// the method only through what they change; an unexplained mismatch gets the
// generic signature of the backend and method.
type namedDeviation struct {
	sig   string
	apply func(*deviations)
}

var memDeviations = map[string][]namedDeviation{
	"ReadUsersetTuples": {
		{"C13/mem-rut-conditions-ignored", func(d *deviations) { d.rutIgnoreConds = true }},
		{"C13/mem-rut-duplicate-rows", func(d *deviations) { d.dupPerEntry = true }},
	},
	"ReadStartingWithUser": {
		{"C13/mem-rswu-duplicate-rows", func(d *deviations) { d.dupPerEntry = true }},
	},
}

var sqlDeviations = map[string][]namedDeviation{
	"ReadStartingWithUser": {
		{"C13/rswu-empty-objectids", func(d *deviations) { d.rswuIgnoreEmptyObjectIDs = true }},
		{"C13/sqlite-rswu-object-user-matches-usersets", func(d *deviations) { d.objectUserMatchesUserset = true }},
	},
	"Read": {
		{"C13/sqlite-read-object-user-matches-usersets", func(d *deviations) { d.objectUserMatchesUserset = true }},
	},
	"ReadPage": {
		{"C13/sqlite-read-object-user-matches-usersets", func(d *deviations) { d.objectUserMatchesUserset = true }},
	},
}

func explain(store []Tup, c ReadCall, got []string, cands []namedDeviation) []string {
	n := len(cands)
	best := []string(nil)
	for mask := 1; mask < 1<<n; mask++ {
		var d deviations
		var sigs []string
		for i, nd := range cands {
			if mask&(1<<i) != 0 {
				nd.apply(&d)
				sigs = append(sigs, nd.sig)
			}
		}
		if best != nil && len(sigs) >= len(best) {
			continue
		}
		if sameRows(ref(store, c, d), got) {
			best = sigs
		}
	}
	return best
}

// checkCall evaluates one read call; it returns every root cause found.
func checkCall(store []Tup, c ReadCall, mem, sql result) []*fw.Failure {
	header := func() string {
		return fmt.Sprintf("%s\nstore (%d tuples):\n%s", describeCall(c), len(store), describeStore(store))
	}
	short := strings.ToLower(c.Method)
	if mem.err != nil || sql.err != nil {
		return []*fw.Failure{fw.Failf("C13/read-error-"+short, "read call failed: memory err=%v, sqlite err=%v\n%s", mem.err, sql.err, header())}
	}
	if u := undocumented(c); u != "" {
		if sameRows(mem.rows, sql.rows) {
			return nil
		}
		sig := "C13/undoc-" + u
		return []*fw.Failure{fw.Failf(sig, "undocumented filter shape (%s): memory and sqlite disagree\n%s\nmemory:\n%s\nsqlite:\n%s", u, header(), rowsText(mem.rows), rowsText(sql.rows))}
	}
	want := ref(store, c, deviations{})
	var out []*fw.Failure
	report := func(backend string, got []string, cands []namedDeviation) {
		if sameRows(got, want) {
			return
		}
		sigs := explain(store, c, got, cands)
		if sigs == nil {
			sigs = []string{"C13/" + backend + "-" + short + "-mismatch"}
		}
		for _, s := range sigs {
			out = append(out, fw.Failf(s, "%s contradicts the documented meaning of the filter (root causes of this call: %v)\n%s\ndocumented (R-store):\n%s\n%s returned:\n%s",
				backend, sigs, header(), rowsText(want), backend, rowsText(got)))
		}
	}
	report("sqlite", sql.rows, sqlDeviations[c.Method])
	report("memory", mem.rows, memDeviations[c.Method])
	return out
}

func check(env *fw.Env, c Case) *fw.Failure {
	// domain: every call must respect the documented preconditions
	for _, r := range c.Reads {
		if !wellFormedCall(r) {
			env.Rec.Discard("malformed-call")
			return nil
		}
	}
	bk, err := openBackends(env.Replay)
	if err != nil {
		return fw.Failf("C13/harness-setup", "cannot open the datastores: %v", err)
	}
	defer bk.close()

	var store []Tup
	classes := []string{}
	rejected := 0
	for i, b := range c.History {
		next, res := applyBatch(store, b)
		if res == applyAmbiguous {
			env.Rec.Discard("ambiguous-batch")
			return nil
		}
		em, es := writeBatch(bk.mem, bk.store, b), writeBatch(bk.sql, bk.store, b)
		if res == applyOK && (em != nil || es != nil) {
			return fw.Failf("C13/valid-write-rejected", "batch %d is valid (deletes exist, writes are new) but memory err=%v, sqlite err=%v\nbatch: %+v\nstore before:\n%s", i, em, es, b, describeStore(store))
		}
		if res == applyInvalid {
			rejected++
			if em == nil || es == nil {
				return fw.Failf("C13/invalid-write-accepted", "batch %d writes an existing tuple or deletes a missing one, yet memory err=%v, sqlite err=%v\nbatch: %+v\nstore before:\n%s", i, em, es, b, describeStore(store))
			}
		}
		store = next
	}
	if rejected > 0 {
		classes = append(classes, "history:rejected-batch")
	}
	if len(c.History) > 1 {
		classes = append(classes, "history:multi-batch")
	}
	hasDel, nested, kinds := false, false, map[string]bool{}
	for _, b := range c.History {
		if len(b.Deletes) > 0 {
			hasDel = true
		}
	}
	for _, t := range store {
		kinds[t.UserKind()] = true
		for _, v := range t.Ctx {
			switch v.(type) {
			case map[string]any, []any:
				nested = true
			}
		}
	}
	if hasDel {
		classes = append(classes, "history:deletes")
	}
	if nested {
		classes = append(classes, "store:nested-context")
	}
	for _, k := range []string{"object", "userset", "wildcard"} {
		if kinds[k] {
			classes = append(classes, "store:user="+k)
		}
	}
	sort.Strings(classes)

	var fails []*fw.Failure
	ntCalls := 0
	var ntSample string
	// the whole store must round-trip before any filter is considered
	all := ReadCall{Method: "Read"}
	fails = append(fails, checkCall(store, all, run(bk.mem, bk.store, all), run(bk.sql, bk.store, all))...)
	for _, r := range c.Reads {
		mem, sql := run(bk.mem, bk.store, r), run(bk.sql, bk.store, r)
		fails = append(fails, checkCall(store, r, mem, sql)...)
		lab, dims := shape(r)
		classes = append(classes, lab)
		if cs := condsShape(r); cs != "" {
			classes = append(classes, cs)
		}
		if u := undocumented(r); u != "" {
			classes = append(classes, "undocumented:"+u)
			continue
		}
		want := uniq(ref(store, r, deviations{}))
		if len(want) > 0 {
			classes = append(classes, "result:non-empty")
		} else {
			classes = append(classes, "result:empty")
		}
		if len(want) > 0 && len(want) < len(store) && dims >= 2 {
			ntCalls++
			if ntSample == "" {
				ntSample = fmt.Sprintf("%s -> %d of %d tuples", describeCall(r), len(want), len(store))
			}
		}
	}
	if len(fails) > 0 {
		// prefer a root cause that is not yet recorded in known_findings.json, so that
		// known ones never hide a new one inside the same case
		for _, f := range fails {
			if !fw.IsKnown(f.Signature) {
				return f
			}
		}
	}
	env.Rec.Add("nontrivial_calls", ntCalls)
	env.Rec.Add("read_calls", len(c.Reads))
	var sample any
	if ntCalls > 0 {
		sample = map[string]any{"tuples": len(store), "batches": len(c.History), "reads": len(c.Reads), "example": ntSample}
	}
	env.Rec.Case(c, ntCalls > 0, sample, classes...)
	if len(fails) > 0 {
		// only recorded (open) findings: the case was evaluated in full — every other
		// call of it agreed three-way — and the framework counts the finding
		return fails[0]
	}
	return nil
}

func TestC13(t *testing.T) { fw.Run(t, "C13", gen, check) }
