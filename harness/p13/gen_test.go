package p13

// Generator: every random decision is a rapid draw. The generator simulates
// the documented Write meaning (applyBatch) only to know which keys exist, so
// that most batches are valid and most filters hit a neighbourhood of stored
// tuples.

import (
	"fmt"
	"math/bits"
	"sort"
	"strings"

	"pgregory.net/rapid"

	"github.com/openfga/openfga/verifharness/fw"
)

var (
	uniTypes = []string{"doc", "group", "user", "users"} // "user" is a string prefix of "users": type filters must compare whole type names
	uniIDs   = []string{"0", "1", "2", "3"}
	uniRels  = []string{"r0", "r1", "r2"}
	uniConds = []string{"c1", "c2"}

	ctxStrings = []string{"", "a", "x y", "héllo", "日本語", "🙂👍🏽", "é", "line\nbreak", "quote\"back\\slash", " ", "ﬃ", "İstanbul", "null", "0"}
	ctxKeys    = []string{"k", "x", "ip", "日本", "", "a.b", "k k", "K"}
	ctxNumbers = []float64{0, 1, -1, 2.5, -0.125, 1e15, 9007199254740993, 1e-7, 3.141592653589793, 1e300, 255}
)

// uni draws an integer of [lo, hi] (almost) uniformly. rapid's own integer
// generators favour small values on purpose, which would skew the shape
// histogram towards whatever is listed first; single bits are unbiased and
// still shrink towards lo.
func uni(t *rapid.T, label string, lo, hi int) int {
	n := hi - lo + 1
	if n <= 1 {
		return lo
	}
	nbits := bits.Len(uint(n-1)) + 4
	v := 0
	for i := nbits - 1; i >= 0; i-- {
		if rapid.Bool().Draw(t, label) {
			v |= 1 << i
		}
	}
	return lo + v%n
}

func pick[T any](t *rapid.T, label string, xs []T) T {
	return xs[uni(t, label, 0, len(xs)-1)]
}

func chance(t *rapid.T, label string, percent int) bool {
	return uni(t, label, 0, 99) < percent
}

func genValue(t *rapid.T, depth int) any {
	max := 5
	if depth <= 0 {
		max = 3
	}
	switch uni(t, "valueKind", 0, max) {
	case 0:
		return pick(t, "str", ctxStrings)
	case 1:
		return pick(t, "num", ctxNumbers)
	case 2:
		return chance(t, "bool", 50)
	case 3:
		return nil
	case 4:
		n := uni(t, "listLen", 0, 3)
		out := make([]any, n)
		for i := range out {
			out[i] = genValue(t, depth-1)
		}
		return out
	default:
		return genMap(t, depth-1, 0)
	}
}

func genMap(t *rapid.T, depth, min int) map[string]any {
	n := uni(t, "mapLen", min, 3)
	out := map[string]any{}
	for i := 0; i < n; i++ {
		out[pick(t, "key", ctxKeys)] = genValue(t, depth)
	}
	return out
}

func genCond(t *rapid.T, tp *Tup) {
	tp.Cond, tp.Ctx = "", nil
	if !chance(t, "withCond", 45) {
		return
	}
	tp.Cond = pick(t, "cond", uniConds)
	switch uni(t, "ctxKind", 0, 5) {
	case 0:
		tp.Ctx = nil
	case 1:
		tp.Ctx = map[string]any{}
	default:
		tp.Ctx = genMap(t, 2, 1)
	}
}

func genUser(t *rapid.T, tp *Tup) {
	tp.UT = pick(t, "userType", uniTypes)
	switch uni(t, "userKind", 0, 9) {
	case 0, 1, 2, 3:
		tp.UID, tp.URel = pick(t, "userID", uniIDs), ""
	case 4, 5:
		tp.UID, tp.URel = "*", ""
	default:
		tp.UID, tp.URel = pick(t, "userID", uniIDs), pick(t, "userRel", uniRels)
	}
}

func genFreshTuple(t *rapid.T) Tup {
	var tp Tup
	tp.OT = pick(t, "objType", uniTypes)
	tp.OID = pick(t, "objID", uniIDs)
	tp.Rel = pick(t, "rel", uniRels)
	genUser(t, &tp)
	genCond(t, &tp)
	return tp
}

// genNeighbour mutates one or two fields of an existing tuple so that the
// store contains tuples that differ in exactly one filter dimension.
func genNeighbour(t *rapid.T, base Tup) Tup {
	tp := base
	n := uni(t, "nMut", 1, 2)
	for i := 0; i < n; i++ {
		switch uni(t, "mut", 0, 6) {
		case 0:
			tp.OID = pick(t, "objID", uniIDs)
		case 1:
			tp.OT = pick(t, "objType", uniTypes)
		case 2:
			tp.Rel = pick(t, "rel", uniRels)
		case 3:
			genUser(t, &tp)
		case 4: // same user object, other kind (object <-> userset)
			if tp.URel == "" && tp.UID != "*" {
				tp.URel = pick(t, "userRel", uniRels)
			} else if tp.URel != "" {
				tp.URel = ""
			} else {
				tp.UID = pick(t, "userID", uniIDs)
			}
		case 5:
			tp.UID = pick(t, "userID", uniIDs)
		case 6:
			if tp.URel != "" {
				tp.URel = pick(t, "userRel", uniRels)
			} else {
				tp.UID = "*"
			}
		}
	}
	genCond(t, &tp)
	return tp
}

func genHistory(t *rapid.T) ([]Batch, []Tup) {
	maxBatches, maxWrites := 4, 8
	if fw.TierIsThorough() {
		maxBatches, maxWrites = 6, 10
	}
	var store []Tup
	var hist []Batch
	nb := uni(t, "nBatches", 1, maxBatches)
	for bi := 0; bi < nb; bi++ {
		var b Batch
		used := map[string]bool{}
		exists := map[string]bool{}
		for _, s := range store {
			exists[s.Key()] = true
		}
		if len(store) > 0 {
			nd := uni(t, "nDeletes", 0, 3)
			for i := 0; i < nd; i++ {
				d := store[uni(t, "delIdx", 0, len(store)-1)]
				if used[d.Key()] {
					continue
				}
				used[d.Key()] = true
				b.Deletes = append(b.Deletes, Tup{OT: d.OT, OID: d.OID, Rel: d.Rel, UT: d.UT, UID: d.UID, URel: d.URel})
			}
		}
		nw := uni(t, "nWrites", 1, maxWrites)
		if bi > 0 && len(b.Deletes) > 0 && chance(t, "deleteOnly", 15) {
			nw = 0
		}
		pool := append([]Tup(nil), store...)
		for i := 0; i < nw; i++ {
			var w Tup
			if len(pool) > 0 && chance(t, "neighbour", 55) {
				w = genNeighbour(t, pool[uni(t, "baseIdx", 0, len(pool)-1)])
			} else {
				w = genFreshTuple(t)
			}
			if used[w.Key()] || exists[w.Key()] {
				continue
			}
			used[w.Key()] = true
			b.Writes = append(b.Writes, w)
			pool = append(pool, w)
		}
		// a rejected batch now and then: it must leave both stores unchanged
		if len(store) > 0 && chance(t, "invalidBatch", 7) {
			if chance(t, "invalidKind", 50) {
				e := store[uni(t, "dupIdx", 0, len(store)-1)]
				if !used[e.Key()] {
					w := e
					genCond(t, &w)
					b.Writes = append(b.Writes, w)
				}
			} else {
				m := genFreshTuple(t)
				if !used[m.Key()] && !exists[m.Key()] {
					b.Deletes = append(b.Deletes, Tup{OT: m.OT, OID: m.OID, Rel: m.Rel, UT: m.UT, UID: m.UID, URel: m.URel})
				}
			}
		}
		if len(b.Deletes) == 0 && len(b.Writes) == 0 {
			continue
		}
		hist = append(hist, b)
		store, _ = applyBatch(store, b)
	}
	return hist, store
}

// ---------------------------------------------------------------- filters

func genConds(t *rapid.T, c *ReadCall, percent int, base Tup) {
	if !chance(t, "withConds", percent) {
		return
	}
	other := "c1"
	if base.Cond == "c1" {
		other = "c2"
	}
	switch uni(t, "condsKind", 0, 9) {
	case 0:
		c.Conds = []string{""}
	case 1:
		c.Conds = []string{base.Cond}
	case 2:
		c.Conds = []string{other}
	case 3:
		c.Conds = []string{"", base.Cond}
	case 4:
		c.Conds = []string{base.Cond, base.Cond}
	case 5:
		c.Conds = []string{"c1", "c2"}
	case 6:
		c.Conds = []string{"", "c1", "c2", ""}
	case 7:
		c.Conds = []string{"zz"}
	case 8:
		c.Conds = []string{other, "", other}
	case 9:
		c.CondsEmpty = true
	}
}

func pickBase(t *rapid.T, store []Tup, want func(Tup) bool) Tup {
	if len(store) > 0 && chance(t, "fromStore", 88) {
		if want != nil && chance(t, "preferKind", 75) {
			var cand []Tup
			for _, s := range store {
				if want(s) {
					cand = append(cand, s)
				}
			}
			if len(cand) > 0 {
				return cand[uni(t, "candIdx", 0, len(cand)-1)]
			}
		}
		return store[uni(t, "storeIdx", 0, len(store)-1)]
	}
	return genFreshTuple(t)
}

func genReadFilter(t *rapid.T, store []Tup, c *ReadCall) {
	base := pickBase(t, store, nil)
	userForm := func() string {
		switch uni(t, "userForm", 0, 9) {
		case 0, 1, 2:
			return base.User()
		case 3, 4, 5:
			return base.UT + ":"
		case 6, 7: // the object behind a userset / an object of the same id
			if base.UID == "*" {
				return base.UT + ":" + pick(t, "userID", uniIDs)
			}
			return base.UT + ":" + base.UID
		case 8:
			return base.UT + ":*"
		default:
			var o Tup
			genUser(t, &o)
			return o.User()
		}
	}
	switch k := uni(t, "readShape", 0, 19); {
	case k < 8: // full object
		c.Object = base.Object()
		if chance(t, "withRel", 55) {
			c.Relation = base.Rel
		}
		if chance(t, "withUser", 60) {
			c.User = userForm()
		}
		genConds(t, c, 35, base)
	case k < 13: // object type + user
		c.Object = base.OT + ":"
		c.User = userForm()
		if chance(t, "withRel", 50) {
			c.Relation = base.Rel
		}
		genConds(t, c, 35, base)
	case k < 17: // user only
		c.User = userForm()
		if chance(t, "withRel", 50) {
			c.Relation = base.Rel
		}
		genConds(t, c, 35, base)
	case k < 19: // undocumented: object type without user
		c.Object = base.OT + ":"
		if chance(t, "withRel", 50) {
			c.Relation = base.Rel
		}
		genConds(t, c, 25, base)
	default:
		// no filter at all
	}
}

// genRestrictions reports whether an undocumented plain-type restriction was
// produced; such calls are kept free of the shapes that trigger the recorded
// documented-meaning findings (no duplicates, no Conditions), so that an
// "undoc" signature always isolates the undocumented element.
func genRestrictions(t *rapid.T, base Tup, c *ReadCall) bool {
	n := uni(t, "nRestr", 0, 4)
	if n == 0 {
		c.RestrEmpty = chance(t, "restrEmpty", 40)
		return false
	}
	plain := false
	for i := 0; i < n; i++ {
		var r Restr
		switch k := uni(t, "restrKind", 0, 19); {
		case k < 7: // the restriction that allows the base user
			r.Type = base.UT
			if base.URel != "" {
				r.Rel = base.URel
			} else {
				r.Wildcard = true
			}
		case k < 9 && len(c.Restr) > 0: // duplicate, as typesystem lists "group#member" and "group#member with c1"
			r = c.Restr[uni(t, "dupIdx", 0, len(c.Restr)-1)]
			if chance(t, "toggleCond", 70) {
				if r.Cond == "" {
					r.Cond = "c1"
				} else {
					r.Cond = ""
				}
			}
		case k < 13:
			r.Type, r.Rel = pick(t, "restrType", uniTypes), pick(t, "restrRel", uniRels)
		case k < 16:
			r.Type, r.Wildcard = pick(t, "restrType", uniTypes), true
		case k < 18:
			r.Type, r.Rel = base.UT, pick(t, "restrRel", uniRels)
		case k < 19:
			r.Type, r.Wildcard = base.UT, true
		default: // undocumented: plain type
			r.Type = base.UT
			plain = true
		}
		if r.Cond == "" && chance(t, "restrCond", 20) {
			r.Cond = pick(t, "restrCondName", uniConds)
		}
		c.Restr = append(c.Restr, r)
	}
	if plain {
		seen := map[string]bool{}
		var out []Restr
		for _, r := range c.Restr {
			k := fmt.Sprintf("%s#%s/%v", r.Type, r.Rel, r.Wildcard)
			if !seen[k] {
				seen[k] = true
				out = append(out, r)
			}
		}
		c.Restr = out
	}
	return plain
}

func genObjectIDs(t *rapid.T, store []Tup, c *ReadCall) {
	present := map[string]bool{}
	for _, s := range store {
		if s.OT == c.ObjectType {
			present[s.OID] = true
		}
	}
	var ids []string
	for id := range present {
		ids = append(ids, id)
	}
	sort.Strings(ids)
	switch k := uni(t, "oidsKind", 0, 19); {
	case k < 8:
		// nil
	case k < 11:
		c.HasObjectIDs = true
		c.ObjectIDs = []string{}
	case k < 16: // subset of what exists
		c.HasObjectIDs = true
		c.ObjectIDs = []string{}
		for _, id := range ids {
			if chance(t, "keepID", 50) {
				c.ObjectIDs = append(c.ObjectIDs, id)
			}
		}
		if len(c.ObjectIDs) == 0 {
			c.ObjectIDs = append(c.ObjectIDs, pick(t, "oneID", uniIDs))
		}
	default: // superset: everything that exists plus unknown ids
		c.HasObjectIDs = true
		c.ObjectIDs = append(append([]string{}, uniIDs...), "unknown", "9")
	}
}

// genUserFilter reports whether the undocumented "userset inside Object" entry
// was produced; such calls carry no other entry or ObjectIDs shape that
// triggers a recorded documented-meaning finding.
func genUserFilter(t *rapid.T, base Tup, c *ReadCall) bool {
	n := uni(t, "nUserFilter", 1, 4)
	undoc := false
	for i := 0; i < n; i++ {
		var uf ObjRel
		switch k := uni(t, "ufKind", 0, 19); {
		case k < 7: // the base user in the canonical form reverse_expand uses
			uf = ObjRel{Object: base.UT + ":" + base.UID, Relation: base.URel}
		case k < 10 && len(c.UserFilter) > 0: // duplicate entry
			uf = c.UserFilter[uni(t, "dupIdx", 0, len(c.UserFilter)-1)]
		case k < 12: // typed wildcard next to the user (checkutil.userFilter)
			uf = ObjRel{Object: base.UT + ":*"}
		case k < 15: // the object behind the base user
			id := base.UID
			if id == "*" {
				id = pick(t, "userID", uniIDs)
			}
			uf = ObjRel{Object: base.UT + ":" + id}
		case k < 17:
			uf = ObjRel{Object: base.UT + ":" + pick(t, "userID", uniIDs), Relation: pick(t, "userRel", uniRels)}
		case k < 19:
			var o Tup
			genUser(t, &o)
			uf = ObjRel{Object: o.UT + ":" + o.UID, Relation: o.URel}
		default: // undocumented: the whole userset inside Object (checkutil / bottom_up with a userset subject)
			rel := base.URel
			if rel == "" {
				rel = pick(t, "userRel", uniRels)
			}
			id := base.UID
			if id == "*" {
				id = pick(t, "userID", uniIDs)
			}
			uf = ObjRel{Object: fmt.Sprintf("%s:%s#%s", base.UT, id, rel)}
			undoc = true
		}
		c.UserFilter = append(c.UserFilter, uf)
	}
	if undoc {
		seen := map[string]bool{}
		var out []ObjRel
		for _, uf := range c.UserFilter {
			_, id := splitObject(uf.Object)
			relationLessObject := uf.Relation == "" && id != "*" && !strings.Contains(uf.Object, "#")
			if !seen[uf.Object+"#"+uf.Relation] && !relationLessObject {
				seen[uf.Object+"#"+uf.Relation] = true
				out = append(out, uf)
			}
		}
		c.UserFilter = out
	}
	return undoc
}

func genReadCall(t *rapid.T, store []Tup) ReadCall {
	var c ReadCall
	switch k := uni(t, "method", 0, 19); {
	case k < 6:
		c.Method = "ReadStartingWithUser"
		base := pickBase(t, store, nil)
		c.ObjectType = base.OT
		c.Relation = base.Rel
		if chance(t, "otherRel", 8) {
			c.Relation = pick(t, "rel", uniRels)
		}
		undoc := genUserFilter(t, base, &c)
		genObjectIDs(t, store, &c)
		if undoc && c.HasObjectIDs && len(c.ObjectIDs) == 0 {
			c.HasObjectIDs, c.ObjectIDs = false, nil
		}
		genConds(t, &c, 35, base)
		c.Sorted = chance(t, "sorted", 50)
	case k < 11:
		c.Method = "ReadUsersetTuples"
		base := pickBase(t, store, func(s Tup) bool { return s.IsUserset() })
		c.Object, c.Relation = base.Object(), base.Rel
		if !genRestrictions(t, base, &c) {
			genConds(t, &c, 45, base)
		}
	case k < 13:
		c.Method = "ReadUserTuple"
		base := pickBase(t, store, nil)
		if chance(t, "nearMiss", 30) && len(store) > 0 {
			base = genNeighbour(t, base)
		}
		c.Object, c.Relation, c.User = base.Object(), base.Rel, base.User()
		genConds(t, &c, 35, base)
	case k < 15:
		c.Method = "ReadPage"
		genReadFilter(t, store, &c)
		c.PageSize = uni(t, "pageSize", 1, 6)
	default:
		c.Method = "Read"
		genReadFilter(t, store, &c)
	}
	return c
}

func gen(t *rapid.T) Case {
	hist, store := genHistory(t)
	lo, hi := 6, 12
	if fw.TierIsThorough() {
		hi = 16
	}
	n := uni(t, "nReads", lo, hi)
	c := Case{History: hist}
	for i := 0; i < n; i++ {
		c.Reads = append(c.Reads, genReadCall(t, store))
	}
	return c
}
