package p13

// Case AST and R-store: an independent implementation of the documented
// meaning (pkg/storage/storage.go doc comments) of every tuple-read filter over
// a plain slice of tuples. Nothing in this file calls into the datastores.

import (
	"encoding/json"
	"fmt"
	"sort"
	"strings"

	"google.golang.org/protobuf/types/known/structpb"
)

// Tup is a well-formed relationship tuple with a structured user.
// UID "*" = typed wildcard; URel != "" = userset.
type Tup struct {
	OT   string         `json:"ot"`
	OID  string         `json:"oid"`
	Rel  string         `json:"rel"`
	UT   string         `json:"ut"`
	UID  string         `json:"uid"`
	URel string         `json:"urel"`
	Cond string         `json:"cond"`
	Ctx  map[string]any `json:"ctx"`
}

func (t Tup) Object() string { return t.OT + ":" + t.OID }
func (t Tup) User() string {
	if t.URel != "" {
		return t.UT + ":" + t.UID + "#" + t.URel
	}
	return t.UT + ":" + t.UID
}
func (t Tup) Key() string     { return t.Object() + "#" + t.Rel + "@" + t.User() }
func (t Tup) IsUserset() bool { return t.URel != "" || t.UID == "*" } // the docs' example counts user:* as a "userset tuple"
func (t Tup) UserKind() string {
	switch {
	case t.URel != "":
		return "userset"
	case t.UID == "*":
		return "wildcard"
	}
	return "object"
}

// Row is the canonical comparable form of a returned tuple.
func (t Tup) Row() string {
	return rowString(t.Object(), t.Rel, t.User(), t.Cond, ctxJSON(t.Cond, t.Ctx))
}

func rowString(obj, rel, user, cond, ctx string) string {
	return obj + "#" + rel + "@" + user + " |" + cond + "| " + ctx
}

// ctxJSON renders a context canonically (sorted keys, float64 numbers). A nil
// and an empty context are the same value (the API cannot tell them apart).
func ctxJSON(cond string, ctx map[string]any) string {
	if cond == "" {
		return ""
	}
	if len(ctx) == 0 {
		return "{}"
	}
	s, err := structpb.NewStruct(ctx)
	if err != nil {
		panic(fmt.Sprintf("p13: context not representable: %v", err))
	}
	b, err := json.Marshal(s.AsMap())
	if err != nil {
		panic(err)
	}
	return string(b)
}

// Batch is one datastore.Write call.
type Batch struct {
	Deletes []Tup `json:"deletes"` // only the key part is used
	Writes  []Tup `json:"writes"`
}

// Restr mirrors openfgav1.RelationReference.
type Restr struct {
	Type     string `json:"type"`
	Rel      string `json:"rel"`      // "type#rel"
	Wildcard bool   `json:"wildcard"` // "type:*"
	Cond     string `json:"cond"`     // the reference's condition (not a filter according to the docs)
}

func (r Restr) kind() string {
	switch {
	case r.Wildcard:
		return "wild"
	case r.Rel != "":
		return "rel"
	}
	return "plain"
}

// ObjRel mirrors openfgav1.ObjectRelation.
type ObjRel struct {
	Object   string `json:"object"`
	Relation string `json:"relation"`
}

// ReadCall is one call of a read method with its filter.
type ReadCall struct {
	Method string `json:"method"` // Read | ReadPage | ReadUserTuple | ReadUsersetTuples | ReadStartingWithUser

	// Read, ReadPage, ReadUserTuple, ReadUsersetTuples
	Object   string `json:"object"`   // "type:id" or "type:" (type only)
	Relation string `json:"relation"` // ReadStartingWithUser too
	User     string `json:"user"`     // "type:id", "type:id#rel", "type:*", "type:" (type prefix)

	// all methods
	Conds      []string `json:"conds"`
	CondsEmpty bool     `json:"conds_empty"` // pass an empty non-nil slice

	PageSize int `json:"page_size"` // ReadPage

	// ReadUsersetTuples
	Restr      []Restr `json:"restr"`
	RestrEmpty bool    `json:"restr_empty"` // pass an empty non-nil slice

	// ReadStartingWithUser
	ObjectType   string   `json:"object_type"`
	UserFilter   []ObjRel `json:"user_filter"`
	HasObjectIDs bool     `json:"has_object_ids"` // false: nil SortedSet
	ObjectIDs    []string `json:"object_ids"`
	Sorted       bool     `json:"sorted"`
}

// Case = write history + read calls.
type Case struct {
	History []Batch    `json:"history"`
	Reads   []ReadCall `json:"reads"`
}

// ---------------------------------------------------------------- write model

type applyResult int

const (
	applyOK        applyResult = iota // documented: must succeed
	applyInvalid                      // documented: must fail (InvalidWriteInputError), state unchanged
	applyAmbiguous                    // the same key in deletes and writes / repeated keys: not used by callers
)

// applyBatch implements the documented meaning of Write on a tuple list.
func applyBatch(store []Tup, b Batch) ([]Tup, applyResult) {
	seen := map[string]bool{}
	for _, d := range b.Deletes {
		if seen[d.Key()] {
			return store, applyAmbiguous
		}
		seen[d.Key()] = true
	}
	for _, w := range b.Writes {
		if seen[w.Key()] {
			return store, applyAmbiguous
		}
		seen[w.Key()] = true
	}
	idx := map[string]bool{}
	for _, t := range store {
		idx[t.Key()] = true
	}
	for _, d := range b.Deletes {
		if !idx[d.Key()] {
			return store, applyInvalid
		}
	}
	for _, w := range b.Writes {
		if idx[w.Key()] {
			return store, applyInvalid
		}
	}
	del := map[string]bool{}
	for _, d := range b.Deletes {
		del[d.Key()] = true
	}
	var out []Tup
	for _, t := range store {
		if !del[t.Key()] {
			out = append(out, t)
		}
	}
	out = append(out, b.Writes...)
	return out, applyOK
}

// ---------------------------------------------------------------- filter model

// deviations describe behaviours that are NOT the documented meaning. The
// oracle always uses the zero value; non-zero values are used only after a
// mismatch, to name its root cause precisely.
type deviations struct {
	rswuIgnoreEmptyObjectIDs bool // an empty non-nil ObjectIDs set does not filter
	objectUserMatchesUserset bool // a relation-less "type:id" user also matches "type:id#rel" users
	dupPerEntry              bool // one row per matching UserFilter entry / restriction
	rutIgnoreConds           bool // ReadUsersetTuples ignores Conditions
}

func splitObject(s string) (typ, id string) {
	i := strings.IndexByte(s, ':')
	if i < 0 {
		return "", s
	}
	return s[:i], s[i+1:]
}

// userPattern is the parsed form of a user filter string.
type userPattern struct {
	typ, id, rel string
	typeOnly     bool
}

func parseUser(s string) userPattern {
	obj, rel := s, ""
	if i := strings.LastIndexByte(s, '#'); i >= 0 {
		obj, rel = s[:i], s[i+1:]
	}
	typ, id := splitObject(obj)
	return userPattern{typ: typ, id: id, rel: rel, typeOnly: id == "" && rel == ""}
}

func condsMatch(conds []string, t Tup) bool {
	if len(conds) == 0 { // "Optional. It can be nil."
		return true
	}
	for _, c := range conds {
		if c == t.Cond {
			return true
		}
	}
	return false
}

func userMatches(p userPattern, t Tup, dev deviations) bool {
	if p.typeOnly {
		return t.UT == p.typ
	}
	if t.UT != p.typ || t.UID != p.id {
		return false
	}
	if p.rel == "" && dev.objectUserMatchesUserset {
		return true
	}
	return t.URel == p.rel
}

// refRead: Read / ReadPage — the tuples that match every filled field of the
// filter; "type:" as object = any object of that type; "type:" as user = any
// user of that type; Conditions (if non-empty) restrict the condition name.
func refRead(store []Tup, c ReadCall, dev deviations) []string {
	var out []string
	ot, oid := splitObject(c.Object)
	up := parseUser(c.User)
	for _, t := range store {
		if c.Object != "" {
			if t.OT != ot || (oid != "" && t.OID != oid) {
				continue
			}
		}
		if c.Relation != "" && t.Rel != c.Relation {
			continue
		}
		if c.User != "" && !userMatches(up, t, dev) {
			continue
		}
		if !condsMatch(c.Conds, t) {
			continue
		}
		out = append(out, t.Row())
	}
	sort.Strings(out)
	return out
}

// refReadUserTuple: the one tuple whose key equals the filter exactly (and
// whose condition name is listed, when Conditions is given), else not found.
func refReadUserTuple(store []Tup, c ReadCall) []string {
	for _, t := range store {
		if t.Object() == c.Object && t.Rel == c.Relation && t.User() == c.User && condsMatch(c.Conds, t) {
			return []string{t.Row()}
		}
	}
	return nil
}

func restrMatches(r Restr, t Tup) bool {
	if r.Type != t.UT {
		return false
	}
	switch {
	case r.Wildcard:
		return t.UID == "*" && t.URel == ""
	case r.Rel != "":
		return t.URel == r.Rel
	}
	return false // plain type: never a userset (only reached for undocumented shapes, where R-store is not the oracle)
}

// refReadUsersetTuples: all userset tuples (user "type:id#rel" or "type:*") of
// the object and relation; when restrictions are given, only users allowed by
// at least one of them; Conditions restrict the condition name. Every stored
// tuple is returned at most once.
func refReadUsersetTuples(store []Tup, c ReadCall, dev deviations) []string {
	var out []string
	conds := c.Conds
	if dev.rutIgnoreConds {
		conds = nil
	}
	for _, t := range store {
		if t.Object() != c.Object || t.Rel != c.Relation || !t.IsUserset() {
			continue
		}
		if !condsMatch(conds, t) {
			continue
		}
		n := 1
		if len(c.Restr) > 0 {
			n = 0
			for _, r := range c.Restr {
				if restrMatches(r, t) {
					n++
				}
			}
			if n > 1 && !dev.dupPerEntry {
				n = 1
			}
		}
		for i := 0; i < n; i++ {
			out = append(out, t.Row())
		}
	}
	sort.Strings(out)
	return out
}

// refReadStartingWithUser: tuples of the object type and relation whose user
// is one of the listed users/usersets; ObjectIDs (when non-nil) is intersected
// with the stored object ids; Conditions restrict the condition name.
func refReadStartingWithUser(store []Tup, c ReadCall, dev deviations) []string {
	var out []string
	ids := map[string]bool{}
	for _, id := range c.ObjectIDs {
		ids[id] = true
	}
	filterIDs := c.HasObjectIDs
	if dev.rswuIgnoreEmptyObjectIDs && len(c.ObjectIDs) == 0 {
		filterIDs = false
	}
	for _, t := range store {
		if t.OT != c.ObjectType || t.Rel != c.Relation {
			continue
		}
		if filterIDs && !ids[t.OID] {
			continue
		}
		if !condsMatch(c.Conds, t) {
			continue
		}
		n := 0
		for _, uf := range c.UserFilter {
			typ, id := splitObject(uf.Object)
			p := userPattern{typ: typ, id: id, rel: uf.Relation}
			if userMatches(p, t, dev) {
				n++
			}
		}
		if n > 1 && !dev.dupPerEntry {
			n = 1
		}
		for i := 0; i < n; i++ {
			out = append(out, t.Row())
		}
	}
	sort.Strings(out)
	return out
}

func ref(store []Tup, c ReadCall, dev deviations) []string {
	switch c.Method {
	case "Read", "ReadPage":
		return refRead(store, c, dev)
	case "ReadUserTuple":
		return refReadUserTuple(store, c)
	case "ReadUsersetTuples":
		return refReadUsersetTuples(store, c, dev)
	case "ReadStartingWithUser":
		return refReadStartingWithUser(store, c, dev)
	}
	panic("p13: unknown method " + c.Method)
}

// ---------------------------------------------------------------- call shapes

// undocumented returns a label when the documentation is silent about the
// meaning of the filter combination ("" = documented).
func undocumented(c ReadCall) string {
	switch c.Method {
	case "Read", "ReadPage":
		_, oid := splitObject(c.Object)
		if c.Object != "" && oid == "" && c.User == "" {
			// commands/read.go refuses this shape "due to some compatibility issues in one
			// of our storage implementations"; no caller uses it.
			return "read-type-only-object-without-user"
		}
	case "ReadUsersetTuples":
		for _, r := range c.Restr {
			if r.kind() == "plain" {
				return "rut-plain-type-restriction"
			}
		}
	case "ReadStartingWithUser":
		for _, uf := range c.UserFilter {
			if strings.Contains(uf.Object, "#") {
				// checkutil.userFilter / bottom_up pass the request user verbatim, which
				// may be "group:1#member" inside Object with an empty Relation.
				return "rswu-userset-inside-object-field"
			}
		}
	}
	return ""
}

// wellFormedCall reports whether the call respects the documented
// preconditions (mandatory fields); anything else is outside the domain.
func wellFormedCall(c ReadCall) bool {
	switch c.Method {
	case "Read", "ReadPage":
		if c.Method == "ReadPage" && c.PageSize <= 0 {
			return false
		}
		if c.Object == "" && c.User == "" {
			// "at least one of Object or User must be specified" unless the key is empty
			return c.Relation == "" && len(c.Conds) == 0 && !c.CondsEmpty
		}
		return true
	case "ReadUserTuple":
		_, oid := splitObject(c.Object)
		p := parseUser(c.User)
		return oid != "" && c.Relation != "" && c.User != "" && !p.typeOnly
	case "ReadUsersetTuples":
		_, oid := splitObject(c.Object)
		return oid != "" && c.Relation != ""
	case "ReadStartingWithUser":
		if c.ObjectType == "" || c.Relation == "" || len(c.UserFilter) == 0 {
			return false
		}
		for _, uf := range c.UserFilter {
			if _, id := splitObject(uf.Object); id == "" {
				return false
			}
		}
		return true
	}
	return false
}

func uniq(ss []string) []string {
	var out []string
	for i, s := range ss {
		if i == 0 || ss[i-1] != s {
			out = append(out, s)
		}
	}
	return out
}

func hasDup(ss []string) bool { return len(uniq(ss)) != len(ss) }

func condsShape(c ReadCall) string {
	if len(c.Conds) == 0 {
		if c.CondsEmpty {
			return "conds=empty"
		}
		return ""
	}
	s := append([]string(nil), c.Conds...)
	sort.Strings(s)
	lab := "conds=named"
	hasEmpty, hasNamed := false, false
	for _, x := range s {
		if x == "" {
			hasEmpty = true
		} else {
			hasNamed = true
		}
	}
	switch {
	case hasEmpty && hasNamed:
		lab = "conds=none+named"
	case hasEmpty:
		lab = "conds=none"
	}
	if hasDup(s) {
		lab += "(dup)"
	}
	return lab
}

// shape is the class label "method × filter shape" and the number of filter
// dimensions in use.
func shape(c ReadCall) (string, int) {
	var parts []string
	dims := 0
	add := func(s string) {
		parts = append(parts, s)
		dims++
	}
	switch c.Method {
	case "Read", "ReadPage", "ReadUserTuple":
		if c.Object != "" {
			if _, oid := splitObject(c.Object); oid == "" {
				add("objtype")
			} else {
				add("obj")
			}
		}
		if c.Relation != "" {
			add("rel")
		}
		if c.User != "" {
			p := parseUser(c.User)
			switch {
			case p.typeOnly:
				add("usertype")
			case p.rel != "":
				add("user=userset")
			case p.id == "*":
				add("user=wildcard")
			default:
				add("user=object")
			}
		}
	case "ReadUsersetTuples":
		add("obj")
		add("rel")
		if len(c.Restr) > 0 {
			kinds := map[string]bool{}
			var keys []string
			for _, r := range c.Restr {
				kinds[r.kind()] = true
				keys = append(keys, fmt.Sprintf("%s#%s/%v", r.Type, r.Rel, r.Wildcard))
			}
			var ks []string
			for _, k := range []string{"rel", "wild", "plain"} {
				if kinds[k] {
					ks = append(ks, k)
				}
			}
			sort.Strings(keys)
			lab := "restr=" + strings.Join(ks, "+")
			if hasDup(keys) {
				lab += "(dup)"
			}
			add(lab)
		} else if c.RestrEmpty {
			parts = append(parts, "restr=empty")
		}
	case "ReadStartingWithUser":
		add("objtype")
		add("rel")
		kinds := map[string]bool{}
		var keys []string
		for _, uf := range c.UserFilter {
			_, id := splitObject(uf.Object)
			switch {
			case strings.Contains(uf.Object, "#"):
				kinds["userset-in-object"] = true
			case uf.Relation != "":
				kinds["userset"] = true
			case id == "*":
				kinds["wildcard"] = true
			default:
				kinds["object"] = true
			}
			keys = append(keys, uf.Object+"#"+uf.Relation)
		}
		var ks []string
		for _, k := range []string{"object", "userset", "wildcard", "userset-in-object"} {
			if kinds[k] {
				ks = append(ks, k)
			}
		}
		sort.Strings(keys)
		lab := "uf=" + strings.Join(ks, "+")
		if hasDup(keys) {
			lab += "(dup)"
		}
		add(lab)
		if c.HasObjectIDs {
			if len(c.ObjectIDs) == 0 {
				add("oids=empty")
			} else {
				add("oids=set")
			}
		}
	}
	if len(c.Conds) > 0 { // the detailed shape of Conditions is a class of its own (condsShape)
		add("conds")
	}
	if len(parts) == 0 {
		parts = []string{"nofilter"}
	}
	return c.Method + ":" + strings.Join(parts, ","), dims
}
