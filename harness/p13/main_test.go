package p13

import (
	"os"
	"testing"

	"github.com/openfga/openfga/verifharness/fw"
)

func TestMain(m *testing.M) {
	code := m.Run()
	fw.FlushAll()
	cleanupTemplate()
	os.Exit(code)
}
