package p13

// The two datastores under test and the adapters that turn a ReadCall into the
// real storage call. A sqlite database is migrated once per process into a
// template file; every case works on its own copy.

import (
	"context"
	"encoding/json"
	"errors"
	"fmt"
	"os"
	"path/filepath"
	"sort"
	"sync"
	"time"

	openfgav1 "github.com/openfga/api/proto/openfga/v1"
	"google.golang.org/protobuf/types/known/structpb"

	"github.com/openfga/openfga/pkg/storage"
	"github.com/openfga/openfga/pkg/storage/memory"
	"github.com/openfga/openfga/pkg/storage/migrate"
	"github.com/openfga/openfga/pkg/storage/sqlcommon"
	"github.com/openfga/openfga/pkg/storage/sqlite"
)

// P13_FRESH_DB=1 (and every replay) gives each case its own copy of the
// migrated template database; otherwise all cases of a process share one open
// sqlite database and are isolated by a fresh store id, which avoids the
// dominant per-case cost (opening/closing a modernc sqlite connection).
var freshDBPerCase = os.Getenv("P13_FRESH_DB") == "1"

var (
	tmplOnce sync.Once
	tmplRoot string
	tmplFile string
	tmplErr  error
	caseSeq  uint64
	caseMu   sync.Mutex
)

func template() (string, string, error) {
	tmplOnce.Do(func() {
		tmplRoot, tmplErr = os.MkdirTemp("", "verif-p13-")
		if tmplErr != nil {
			return
		}
		tmplFile = filepath.Join(tmplRoot, "template.db")
		tmplErr = migrate.RunMigrations(migrate.MigrationConfig{
			Engine:      "sqlite",
			URI:         "file:" + tmplFile,
			Timeout:     60 * time.Second,
			PingTimeout: 10 * time.Second,
		})
	})
	return tmplRoot, tmplFile, tmplErr
}

// cleanupTemplate removes the per-process temp dir (called from TestMain).
func cleanupTemplate() {
	if sharedDS != nil {
		sharedDS.Close()
	}
	if tmplRoot != "" {
		_ = os.RemoveAll(tmplRoot)
	}
}

type backends struct {
	mem   storage.OpenFGADatastore
	sql   storage.OpenFGADatastore
	store string
	dir   string // "" when the shared database is used
}

var (
	sharedOnce sync.Once
	sharedDS   storage.OpenFGADatastore
	sharedErr  error
)

func copyTemplate(dir string) (storage.OpenFGADatastore, error) {
	_, tmpl, err := template()
	if err != nil {
		return nil, fmt.Errorf("sqlite template: %w", err)
	}
	if err := os.Mkdir(dir, 0o755); err != nil {
		return nil, err
	}
	b, err := os.ReadFile(tmpl)
	if err != nil {
		return nil, err
	}
	db := filepath.Join(dir, "case.db")
	if err := os.WriteFile(db, b, 0o644); err != nil {
		return nil, err
	}
	// synchronous(OFF): no fsync per commit (durability is irrelevant here, read
	// semantics are unaffected); journal mode and busy timeout keep the defaults
	// that sqlite.PrepareDSN adds.
	return sqlite.New("file:"+db+"?_pragma=synchronous(OFF)", sqlcommon.NewConfig())
}

func openBackends(fresh bool) (*backends, error) {
	root, _, err := template()
	if err != nil {
		return nil, fmt.Errorf("sqlite template: %w", err)
	}
	caseMu.Lock()
	caseSeq++
	n := caseSeq
	caseMu.Unlock()
	store := fmt.Sprintf("01HVMMBCMGZNT3SED4%08d", n) // ULID-shaped, unique per case
	if fresh || freshDBPerCase {
		dir := filepath.Join(root, fmt.Sprintf("case-%d", n))
		ds, err := copyTemplate(dir)
		if err != nil {
			_ = os.RemoveAll(dir)
			return nil, err
		}
		return &backends{mem: memory.New(), sql: ds, store: store, dir: dir}, nil
	}
	sharedOnce.Do(func() { sharedDS, sharedErr = copyTemplate(filepath.Join(root, "shared")) })
	if sharedErr != nil {
		return nil, sharedErr
	}
	return &backends{mem: memory.New(), sql: sharedDS, store: store}, nil
}

func (b *backends) close() {
	b.mem.Close()
	if b.dir != "" {
		b.sql.Close()
		_ = os.RemoveAll(b.dir)
	}
}

// ---------------------------------------------------------------- conversions

func tupleKey(t Tup) *openfgav1.TupleKey {
	tk := &openfgav1.TupleKey{Object: t.Object(), Relation: t.Rel, User: t.User()}
	if t.Cond != "" {
		rc := &openfgav1.RelationshipCondition{Name: t.Cond}
		if t.Ctx != nil {
			s, err := structpb.NewStruct(t.Ctx)
			if err != nil {
				panic(fmt.Sprintf("p13: context not representable: %v", err))
			}
			rc.Context = s
		}
		tk.Condition = rc
	}
	return tk
}

func writeBatch(ds storage.OpenFGADatastore, storeID string, b Batch) error {
	var del storage.Deletes
	for _, d := range b.Deletes {
		del = append(del, &openfgav1.TupleKeyWithoutCondition{Object: d.Object(), Relation: d.Rel, User: d.User()})
	}
	var wr storage.Writes
	for _, w := range b.Writes {
		wr = append(wr, tupleKey(w))
	}
	return ds.Write(context.Background(), storeID, del, wr)
}

// rowOf renders a returned tuple in the canonical comparable form.
func rowOf(t *openfgav1.Tuple) string {
	k := t.GetKey()
	cond := k.GetCondition().GetName()
	ctx := ""
	if cond != "" {
		ctx = "{}"
		if s := k.GetCondition().GetContext(); s != nil && len(s.GetFields()) > 0 {
			b, err := json.Marshal(s.AsMap())
			if err != nil {
				panic(err)
			}
			ctx = string(b)
		}
	} else if s := k.GetCondition().GetContext(); s != nil && len(s.GetFields()) > 0 {
		ctx = "<context without condition name>"
	}
	return rowString(k.GetObject(), k.GetRelation(), k.GetUser(), cond, ctx)
}

func drain(it storage.TupleIterator, err error) ([]string, error) {
	if err != nil {
		return nil, err
	}
	defer it.Stop()
	var out []string
	for i := 0; ; i++ {
		t, err := it.Next(context.Background())
		if err != nil {
			if errors.Is(err, storage.ErrIteratorDone) {
				break
			}
			return nil, err
		}
		out = append(out, rowOf(t))
		if i > 100000 {
			return nil, errors.New("iterator does not terminate")
		}
	}
	return out, nil
}

func condsArg(c ReadCall) []string {
	if len(c.Conds) > 0 {
		return append([]string(nil), c.Conds...)
	}
	if c.CondsEmpty {
		return []string{}
	}
	return nil
}

// result of one call on one backend.
type result struct {
	rows []string // sorted multiset of canonical rows
	err  error
}

// run performs the call exactly as the callers in internal/graph,
// internal/check and pkg/server/commands do.
func run(ds storage.OpenFGADatastore, storeID string, c ReadCall) result {
	ctx := context.Background()
	var rows []string
	var err error
	switch c.Method {
	case "Read":
		rows, err = drain(ds.Read(ctx, storeID, storage.ReadFilter{Object: c.Object, Relation: c.Relation, User: c.User, Conditions: condsArg(c)}, storage.ReadOptions{}))
	case "ReadPage":
		token := ""
		for page := 0; ; page++ {
			var ts []*openfgav1.Tuple
			ts, token, err = ds.ReadPage(ctx, storeID, storage.ReadFilter{Object: c.Object, Relation: c.Relation, User: c.User, Conditions: condsArg(c)},
				storage.ReadPageOptions{Pagination: storage.PaginationOptions{PageSize: c.PageSize, From: token}})
			if err != nil {
				break
			}
			if len(ts) > c.PageSize {
				err = fmt.Errorf("page of %d tuples exceeds page size %d", len(ts), c.PageSize)
				break
			}
			for _, t := range ts {
				rows = append(rows, rowOf(t))
			}
			if token == "" {
				break
			}
			if page > 10000 {
				err = errors.New("paging does not terminate")
				break
			}
		}
	case "ReadUserTuple":
		var t *openfgav1.Tuple
		t, err = ds.ReadUserTuple(ctx, storeID, storage.ReadUserTupleFilter{Object: c.Object, Relation: c.Relation, User: c.User, Conditions: condsArg(c)}, storage.ReadUserTupleOptions{})
		if errors.Is(err, storage.ErrNotFound) {
			err = nil
		} else if err == nil {
			rows = []string{rowOf(t)}
		}
	case "ReadUsersetTuples":
		var restr []*openfgav1.RelationReference
		if c.RestrEmpty && len(c.Restr) == 0 {
			restr = []*openfgav1.RelationReference{}
		}
		for _, r := range c.Restr {
			rr := &openfgav1.RelationReference{Type: r.Type, Condition: r.Cond}
			if r.Wildcard {
				rr.RelationOrWildcard = &openfgav1.RelationReference_Wildcard{Wildcard: &openfgav1.Wildcard{}}
			} else if r.Rel != "" {
				rr.RelationOrWildcard = &openfgav1.RelationReference_Relation{Relation: r.Rel}
			}
			restr = append(restr, rr)
		}
		rows, err = drain(ds.ReadUsersetTuples(ctx, storeID, storage.ReadUsersetTuplesFilter{Object: c.Object, Relation: c.Relation, AllowedUserTypeRestrictions: restr, Conditions: condsArg(c)}, storage.ReadUsersetTuplesOptions{}))
	case "ReadStartingWithUser":
		var uf []*openfgav1.ObjectRelation
		for _, u := range c.UserFilter {
			uf = append(uf, &openfgav1.ObjectRelation{Object: u.Object, Relation: u.Relation})
		}
		f := storage.ReadStartingWithUserFilter{ObjectType: c.ObjectType, Relation: c.Relation, UserFilter: uf, Conditions: condsArg(c)}
		if c.HasObjectIDs {
			f.ObjectIDs = storage.NewSortedSet(c.ObjectIDs...)
		}
		rows, err = drain(ds.ReadStartingWithUser(ctx, storeID, f, storage.ReadStartingWithUserOptions{WithResultsSortedAscending: c.Sorted}))
	default:
		err = fmt.Errorf("unknown method %q", c.Method)
	}
	sort.Strings(rows)
	return result{rows: rows, err: err}
}
