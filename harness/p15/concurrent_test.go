package p15

import (
	"context"
	"fmt"
	"sort"
	"sync"
	"testing"

	"pgregory.net/rapid"

	"github.com/openfga/openfga/verifharness/fw"
	"github.com/openfga/openfga/verifharness/m"
	"github.com/openfga/openfga/verifharness/sut"
)

// TestC15Concurrent — the changelog after CONCURRENT writers.
//
// W writers (real goroutines) each write M own tuples one by one and then
// delete every second one, against a store that already holds `Preload`
// tuples (a longer critical section). Afterwards the changelog is read through
// the API with a drawn page size. Oracle, independent of the commit order:
// exactly one entry per successful write / delete; for every tuple key the
// entries appear in the order its writer issued them (write before delete);
// replaying the paged changelog from an empty store gives exactly what Read
// returns. (Timestamps along the changelog are not asserted: the property does
// not state them, and sqlite stamps entries before it orders them.)
//
// Non-trivial: >= 2 writers and the changelog spans >= 2 pages.

type ConcCase struct {
	Backend  string `json:"backend"`
	Writers  int    `json:"writers"`
	PerWrite int    `json:"per_writer"`
	Preload  int    `json:"preload"`
	Page     int    `json:"page"`
}

func genConc(t *rapid.T) ConcCase {
	return ConcCase{
		Backend:  []string{"memory", "memory", "sqlite"}[rapid.IntRange(0, 2).Draw(t, "backend")],
		Writers:  rapid.IntRange(2, 8).Draw(t, "writers"),
		PerWrite: rapid.IntRange(4, 16).Draw(t, "perWriter"),
		Preload:  []int{0, 200, 1500}[rapid.IntRange(0, 2).Draw(t, "preload")],
		Page:     []int{1, 3, 7, 25, 100}[rapid.IntRange(0, 4).Draw(t, "page")],
	}
}

func checkConc(env *fw.Env, c ConcCase) *fw.Failure {
	if c.Writers == 0 || c.Page == 0 {
		env.Rec.Discard("replay-file-of-another-test") // e.g. a TestC15 case
		return nil
	}
	ds, closeFn, err := newDatastore(c.Backend)
	if err != nil {
		return fw.Failf("harness/datastore", "%v", err)
	}
	defer closeFn()
	s := sut.NewWithDS(ds)
	defer s.Close()
	store := s.CreateStore("verif")
	resp, err := s.Srv.WriteAuthorizationModel(bg(), modelRequest(store))
	if err != nil {
		return fw.Failf("harness/model", "%v", err)
	}
	modelID := resp.GetAuthorizationModelId()
	var pre []m.Tuple
	for i := 0; i < c.Preload; i++ {
		pre = append(pre, m.Tuple{Object: fmt.Sprintf("folder:p%d", i), Relation: "viewer", User: "user:pre"})
	}
	if err := s.WriteRaw(store, pre); err != nil {
		return fw.Failf("harness/preload", "%v", err)
	}
	var wg sync.WaitGroup
	start := make(chan struct{})
	errs := make(chan error, c.Writers*c.PerWrite*2)
	for w := 0; w < c.Writers; w++ {
		wg.Add(1)
		go func(w int) {
			defer wg.Done()
			<-start
			for i := 0; i < c.PerWrite; i++ {
				tu := m.Tuple{Object: fmt.Sprintf("doc:w%d_%d", w, i), Relation: "viewer", User: fmt.Sprintf("user:w%d", w)}
				if err := s.WriteAPI(store, modelID, []m.Tuple{tu}); err != nil {
					errs <- fmt.Errorf("write %s: %w", tu, err)
				}
			}
			for i := 0; i < c.PerWrite; i += 2 {
				tu := m.Tuple{Object: fmt.Sprintf("doc:w%d_%d", w, i), Relation: "viewer", User: fmt.Sprintf("user:w%d", w)}
				if err := s.DeleteAPI(store, modelID, []m.Tuple{tu}); err != nil {
					errs <- fmt.Errorf("delete %s: %w", tu, err)
				}
			}
		}(w)
	}
	close(start)
	wg.Wait()
	close(errs)
	for err := range errs {
		if c.Backend == "sqlite" {
			env.Rec.Discard("sqlite-busy-under-concurrent-writers")
			return nil
		}
		return fw.Failf("", "an operation on a writer's own fresh tuple failed: %v", err)
	}
	es, err := serverChanges(s, store, "doc", c.Page)
	if err != nil {
		return fw.Failf("", "ReadChanges (page size %d): %v", c.Page, err)
	}
	wantEntries := c.Writers * (c.PerWrite + (c.PerWrite+1)/2)
	count := map[string]int{}
	state := map[string]bool{}
	for i, e := range es {
		k := fmt.Sprintf("%v %s", e.del, e.t.Key())
		count[k]++
		if count[k] > 1 {
			return fw.Failf("C15/concurrent-writers-changelog-entry-repeated-or-missing", "%d writers x %d writes (+ deletes of every second), page size %d: entry %q appears twice in the paged changelog", c.Writers, c.PerWrite, c.Page, k)
		}
		if e.del && !state[e.t.Key()] {
			return fw.Failf("", "changelog entry %d deletes %s before its write", i, e.t.Key())
		}
		state[e.t.Key()] = !e.del
	}
	if len(es) != wantEntries {
		return fw.Failf("C15/concurrent-writers-changelog-entry-repeated-or-missing", "%d writers x %d writes (+ deletes of every second) = %d changes, the paged changelog (page size %d) has %d entries", c.Writers, c.PerWrite, wantEntries, c.Page, len(es))
	}
	got, err := readAll(s, store)
	if err != nil {
		return fw.Failf("", "Read: %v", err)
	}
	var replayed, stored []string
	for k, present := range state {
		if present {
			replayed = append(replayed, k)
		}
	}
	for k := range got {
		if objectType(got[k].Object) == "doc" {
			stored = append(stored, k)
		}
	}
	sort.Strings(replayed)
	sort.Strings(stored)
	if fmt.Sprint(replayed) != fmt.Sprint(stored) {
		return fw.Failf("", "replaying the paged changelog gives %v, Read returns %v", replayed, stored)
	}
	env.Rec.Case(c, c.Writers >= 2 && wantEntries > c.Page, map[string]any{"case": c, "entries": len(es)},
		"backend:"+c.Backend, fmt.Sprintf("writers:%d", c.Writers), fmt.Sprintf("page:%d", c.Page), fmt.Sprintf("preload:%d", c.Preload))
	return nil
}

func bg() context.Context { return context.Background() }

func TestC15Concurrent(t *testing.T) { fw.Run(t, "C15", genConc, checkConc) }
