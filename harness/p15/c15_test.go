package p15

import (
	"context"
	"encoding/json"
	"errors"
	"fmt"
	"os"
	"reflect"
	"sort"
	"strings"
	"testing"
	"time"

	openfgav1 "github.com/openfga/api/proto/openfga/v1"
	"google.golang.org/protobuf/types/known/wrapperspb"
	"pgregory.net/rapid"

	"github.com/openfga/openfga/pkg/storage"

	"github.com/openfga/openfga/verifharness/conv"
	"github.com/openfga/openfga/verifharness/fw"
	"github.com/openfga/openfga/verifharness/m"
	"github.com/openfga/openfga/verifharness/sut"
)

// C15 — the changelog faithfully records tuple history.
//
// A case is a history of Server.Write calls over a small tuple universe
// (writes, deletes, no-ops ignored through on_duplicate / on_missing = ignore,
// conditions), a backend, an optional object-type filter and a page size.
// Oracle (all computed by the harness from the history, never from the code):
//   1. the number of change entries equals the number of EFFECTIVE writes and
//      deletes of the successful calls (ignored no-ops produce none);
//   2. entries appear call by call (commit order); inside one call every
//      effective operation has exactly one entry with its operation, tuple and,
//      for writes, its condition name and context;
//   3. replaying all pages, oldest first, onto an empty map reproduces exactly
//      what Server.Read returns now;
//   4. datastore ReadChanges with SortDesc is the exact reverse of ascending;
//   5. (few cases, it sleeps) datastore ReadChanges with HorizonOffset withholds
//      the entries newer than the horizon and returns the older ones; the
//      expectation is computed from the RETURNED timestamps and the wall-clock
//      window of the call, entries inside the uncertainty window may go either way.

type Step struct {
	Writes      []m.Tuple `json:"writes,omitempty"`
	Deletes     []m.Tuple `json:"deletes,omitempty"`      // only object/relation/user are used
	OnDuplicate string    `json:"on_duplicate,omitempty"` // "", "error", "ignore"
	OnMissing   string    `json:"on_missing,omitempty"`   // "", "error", "ignore"
}

type Case struct {
	Backend  string `json:"backend"`
	Steps    []Step `json:"steps"`
	Type     string `json:"type,omitempty"` // object type filter of ReadChanges
	PageSize int    `json:"page_size"`
	// Horizon: steps[:Split] are written, the check sleeps, steps[Split:] are
	// written and the log is read at once with a horizon offset.
	Horizon bool `json:"horizon,omitempty"`
	Split   int  `json:"split,omitempty"`
}

const (
	horizonOffset = 150 * time.Millisecond
	horizonGap    = 400 * time.Millisecond
	horizonEps    = 3 * time.Millisecond // sqlite keeps milliseconds only
)

// ---------------------------------------------------------------------------
// model and universe

func modelRequest(store string) *openfgav1.WriteAuthorizationModelRequest {
	this := &openfgav1.Userset{Userset: &openfgav1.Userset_This{This: &openfgav1.DirectUserset{}}}
	ref := func(t string) *openfgav1.RelationReference { return &openfgav1.RelationReference{Type: t} }
	wild := func(t string) *openfgav1.RelationReference {
		return &openfgav1.RelationReference{Type: t, RelationOrWildcard: &openfgav1.RelationReference_Wildcard{Wildcard: &openfgav1.Wildcard{}}}
	}
	rel := func(t, r string) *openfgav1.RelationReference {
		return &openfgav1.RelationReference{Type: t, RelationOrWildcard: &openfgav1.RelationReference_Relation{Relation: r}}
	}
	cond := func(t, c string) *openfgav1.RelationReference {
		return &openfgav1.RelationReference{Type: t, Condition: c}
	}
	md := func(rs map[string][]*openfgav1.RelationReference) *openfgav1.Metadata {
		out := &openfgav1.Metadata{Relations: map[string]*openfgav1.RelationMetadata{}}
		for k, v := range rs {
			out.Relations[k] = &openfgav1.RelationMetadata{DirectlyRelatedUserTypes: v}
		}
		return out
	}
	return &openfgav1.WriteAuthorizationModelRequest{
		StoreId: store, SchemaVersion: "1.1",
		TypeDefinitions: []*openfgav1.TypeDefinition{
			{Type: "user"},
			{Type: "group", Relations: map[string]*openfgav1.Userset{"member": this},
				Metadata: md(map[string][]*openfgav1.RelationReference{"member": {ref("user"), wild("user")}})},
			{Type: "doc", Relations: map[string]*openfgav1.Userset{"viewer": this, "editor": this},
				Metadata: md(map[string][]*openfgav1.RelationReference{
					"viewer": {ref("user"), wild("user"), rel("group", "member"), cond("user", "c1")},
					"editor": {ref("user"), cond("user", "c1")}})},
			{Type: "folder", Relations: map[string]*openfgav1.Userset{"viewer": this},
				Metadata: md(map[string][]*openfgav1.RelationReference{"viewer": {ref("user"), rel("group", "member")}})},
		},
		Conditions: map[string]*openfgav1.Condition{
			"c1": {Name: "c1", Expression: "x < 100", Parameters: map[string]*openfgav1.ConditionParamTypeRef{
				"x": {TypeName: openfgav1.ConditionParamTypeRef_TYPE_NAME_INT}}},
		},
	}
}

// genTuple draws a tuple that the model accepts.
func genTuple(t *rapid.T) m.Tuple {
	user := func() string { return fmt.Sprintf("user:%d", rapid.IntRange(0, 2).Draw(t, "uid")) }
	withCond := func(tu m.Tuple) m.Tuple {
		if rapid.IntRange(0, 2).Draw(t, "cond") == 0 {
			tu.Cond = "c1"
			if rapid.Bool().Draw(t, "ctx") {
				tu.Ctx = map[string]any{"x": float64(rapid.IntRange(0, 2).Draw(t, "x"))}
			}
		}
		return tu
	}
	switch rapid.IntRange(0, 7).Draw(t, "shape") {
	case 0, 1:
		return withCond(m.Tuple{Object: fmt.Sprintf("doc:%d", rapid.IntRange(0, 1).Draw(t, "oid")), Relation: "viewer", User: user()})
	case 2:
		return m.Tuple{Object: fmt.Sprintf("doc:%d", rapid.IntRange(0, 1).Draw(t, "oid")), Relation: "viewer", User: rapid.SampledFrom([]string{"user:*", "group:0#member"}).Draw(t, "u")}
	case 3, 4:
		return withCond(m.Tuple{Object: fmt.Sprintf("doc:%d", rapid.IntRange(0, 1).Draw(t, "oid")), Relation: "editor", User: user()})
	case 5:
		return m.Tuple{Object: "group:0", Relation: "member", User: rapid.SampledFrom([]string{"user:0", "user:1", "user:*"}).Draw(t, "u")}
	default:
		return m.Tuple{Object: "folder:0", Relation: "viewer", User: rapid.SampledFrom([]string{"user:0", "user:1", "group:0#member"}).Draw(t, "u")}
	}
}

func sameCondition(a, b m.Tuple) bool {
	return a.Cond == b.Cond && reflect.DeepEqual(conv.Normalize(a.Ctx), conv.Normalize(b.Ctx)) && (len(a.Ctx) == 0) == (len(b.Ctx) == 0)
}

// ---------------------------------------------------------------------------
// R-store: the effect a Write call must have according to the documentation of
// the Write API (deletes first, then writes; on_missing / on_duplicate).

type effOp struct {
	del bool
	t   m.Tuple
}

// applyStep returns the effective operations of the call, or ok=false when the
// call must be rejected as a whole (and then changes nothing).
func applyStep(state map[string]m.Tuple, st Step) (eff []effOp, ok bool) {
	keys := map[string]bool{}
	for _, t := range append(append([]m.Tuple(nil), st.Deletes...), st.Writes...) {
		if keys[t.Key()] {
			return nil, false // the same tuple twice in one request
		}
		keys[t.Key()] = true
	}
	if len(keys) == 0 {
		return nil, false
	}
	for _, d := range st.Deletes {
		if _, has := state[d.Key()]; has {
			eff = append(eff, effOp{del: true, t: m.Tuple{Object: d.Object, Relation: d.Relation, User: d.User}})
		} else if st.OnMissing != "ignore" {
			return nil, false
		}
	}
	for _, w := range st.Writes {
		if old, has := state[w.Key()]; has {
			if st.OnDuplicate != "ignore" || !sameCondition(old, w) {
				return nil, false
			}
			continue // identical tuple, ignored
		}
		eff = append(eff, effOp{t: w})
	}
	for _, e := range eff {
		if e.del {
			delete(state, e.t.Key())
		} else {
			state[e.t.Key()] = e.t
		}
	}
	return eff, true
}

// ---------------------------------------------------------------------------
// entries

type entry struct {
	del bool
	t   m.Tuple
	ts  time.Time
	raw string // operation as reported, when it is neither write nor delete
}

func (e entry) String() string {
	op := "WRITE"
	if e.del {
		op = "DELETE"
	}
	if e.raw != "" {
		op = e.raw
	}
	return fmt.Sprintf("%s %s @%s", op, e.t, e.ts.UTC().Format("15:04:05.000000"))
}

// id identifies an entry completely (used to compare ascending / descending).
func (e entry) id() string {
	ctx, _ := json.Marshal(conv.Normalize(e.t.Ctx))
	return fmt.Sprintf("%v|%s|%s|%s|%s|%d", e.del, e.raw, e.t.Key(), e.t.Cond, ctx, e.ts.UnixNano())
}

func toEntry(c *openfgav1.TupleChange) entry {
	e := entry{t: conv.FromTupleKey(c.GetTupleKey()), ts: c.GetTimestamp().AsTime()}
	switch c.GetOperation() {
	case openfgav1.TupleOperation_TUPLE_OPERATION_WRITE:
	case openfgav1.TupleOperation_TUPLE_OPERATION_DELETE:
		e.del = true
	default:
		e.raw = c.GetOperation().String()
	}
	return e
}

func entryStrings(es []entry) []string {
	out := make([]string, len(es))
	for i, e := range es {
		out[i] = e.String()
	}
	return out
}

func objectType(object string) string {
	if i := strings.IndexByte(object, ':'); i >= 0 {
		return object[:i]
	}
	return object
}

// serverChanges follows Server.ReadChanges from the beginning until the page
// without changes (which echoes the token).
func serverChanges(s *sut.SUT, store, typ string, size int) ([]entry, error) {
	var out []entry
	tok := ""
	for i := 0; ; i++ {
		if i > 400 {
			return out, fmt.Errorf("ReadChanges does not terminate (%d pages)", i)
		}
		resp, err := s.Srv.ReadChanges(context.Background(), &openfgav1.ReadChangesRequest{StoreId: store, Type: typ, PageSize: wrapperspb.Int32(int32(size)), ContinuationToken: tok})
		if err != nil {
			return out, err
		}
		if len(resp.GetChanges()) == 0 {
			return out, nil
		}
		if len(resp.GetChanges()) > size {
			return out, fmt.Errorf("page of %d changes for page size %d", len(resp.GetChanges()), size)
		}
		for _, c := range resp.GetChanges() {
			out = append(out, toEntry(c))
		}
		tok = resp.GetContinuationToken()
		if tok == "" {
			return out, fmt.Errorf("a page with changes carries no continuation token")
		}
	}
}

// dsChanges follows the datastore's ReadChanges until ErrNotFound.
func dsChanges(ds storage.OpenFGADatastore, store string, f storage.ReadChangesFilter, desc bool, size int) ([]entry, error) {
	var out []entry
	from := ""
	for i := 0; ; i++ {
		if i > 400 {
			return out, fmt.Errorf("datastore ReadChanges does not terminate")
		}
		chs, tok, err := ds.ReadChanges(context.Background(), store, f, storage.ReadChangesOptions{SortDesc: desc, Pagination: storage.PaginationOptions{PageSize: size, From: from}})
		if err != nil {
			if errors.Is(err, storage.ErrNotFound) {
				return out, nil
			}
			return out, err
		}
		if len(chs) == 0 {
			return out, nil
		}
		for _, c := range chs {
			out = append(out, toEntry(c))
		}
		if tok == "" {
			return out, fmt.Errorf("datastore ReadChanges returned changes without a continuation token")
		}
		from = tok
	}
}

func readAll(s *sut.SUT, store string) (map[string]m.Tuple, error) {
	out := map[string]m.Tuple{}
	tok := ""
	for i := 0; i < 200; i++ {
		resp, err := s.Srv.Read(context.Background(), &openfgav1.ReadRequest{StoreId: store, PageSize: wrapperspb.Int32(50), ContinuationToken: tok})
		if err != nil {
			return nil, err
		}
		for _, t := range resp.GetTuples() {
			tu := conv.FromTupleKey(t.GetKey())
			if _, dup := out[tu.Key()]; dup {
				return nil, fmt.Errorf("Read returned %s twice", tu.Key())
			}
			out[tu.Key()] = tu
		}
		tok = resp.GetContinuationToken()
		if tok == "" {
			return out, nil
		}
	}
	return nil, fmt.Errorf("Read does not terminate")
}

func stateStrings(st map[string]m.Tuple) []string {
	var out []string
	for _, t := range st {
		ctx, _ := json.Marshal(conv.Normalize(t.Ctx))
		s := t.Key()
		if t.Cond != "" {
			s += " with " + t.Cond + " " + string(ctx)
		}
		out = append(out, s)
	}
	sort.Strings(out)
	return out
}

func sameTuple(a, b m.Tuple) bool {
	return a.Key() == b.Key() && a.Cond == b.Cond && reflect.DeepEqual(conv.Normalize(a.Ctx), conv.Normalize(b.Ctx))
}

// ---------------------------------------------------------------------------
// the check

func checkC15(env *fw.Env, c Case) *fw.Failure {
	if c.Backend != "memory" && c.Backend != "sqlite" {
		env.Rec.Discard("unknown-backend")
		return nil
	}
	size := c.PageSize
	if size < 1 || size > 100 {
		env.Rec.Discard("page-size-out-of-range")
		return nil
	}
	ds, closeFn, err := newDatastore(c.Backend)
	if err != nil {
		return fw.Failf("C15/setup", "datastore: %v", err)
	}
	s := sut.NewWithDS(ds)
	defer func() { s.Close(); closeFn() }()
	ctx := context.Background()
	store := s.CreateStore("c15-store")
	mresp, err := s.Srv.WriteAuthorizationModel(ctx, modelRequest(store))
	if err != nil {
		return fw.Failf("C15/setup", "model: %v", err)
	}
	modelID := mresp.GetAuthorizationModelId()
	sg := func(kind string) string { return "C15/" + c.Backend + "-" + kind }

	state := map[string]m.Tuple{}
	var groups [][]effOp // effective ops per successful call
	everWritten, deleted := map[string]bool{}, map[string]bool{}
	sawDelete, sawRewrite, sawIgnoredDup, sawIgnoredMissing, sawCond, sawRejected := false, false, false, false, false, false

	runStep := func(st Step) (stop bool, f *fw.Failure) {
		req := &openfgav1.WriteRequest{StoreId: store, AuthorizationModelId: modelID}
		if len(st.Writes) > 0 {
			req.Writes = &openfgav1.WriteRequestWrites{TupleKeys: conv.TupleKeys(st.Writes), OnDuplicate: st.OnDuplicate}
		}
		if len(st.Deletes) > 0 {
			var del []*openfgav1.TupleKeyWithoutCondition
			for _, d := range st.Deletes {
				del = append(del, &openfgav1.TupleKeyWithoutCondition{Object: d.Object, Relation: d.Relation, User: d.User})
			}
			req.Deletes = &openfgav1.WriteRequestDeletes{TupleKeys: del, OnMissing: st.OnMissing}
		}
		trial := map[string]m.Tuple{}
		for k, v := range state {
			trial[k] = v
		}
		eff, ok := applyStep(trial, st)
		_, werr := s.Srv.Write(ctx, req)
		if (werr == nil) != ok {
			// Whether a call is accepted is property C12's business; C15 only
			// speaks about the log of what was accepted.
			if os.Getenv("P15_DEBUG") != "" {
				b, _ := json.Marshal(st)
				fmt.Printf("DISCARD backend=%s predicted-ok=%v err=%v step=%s state=%v\n", c.Backend, ok, werr, b, stateStrings(state))
			}
			env.Rec.Discard("write-outcome-differs-from-documented-semantics")
			return true, nil
		}
		if !ok {
			sawRejected = true
			return false, nil
		}
		for _, d := range st.Deletes {
			if _, has := state[d.Key()]; !has {
				sawIgnoredMissing = true
			}
		}
		for _, w := range st.Writes {
			if _, has := state[w.Key()]; has {
				sawIgnoredDup = true
			}
		}
		for _, e := range eff {
			k := e.t.Key()
			if e.del {
				if everWritten[k] {
					sawDelete = true
				}
				deleted[k] = true
			} else {
				if deleted[k] {
					sawRewrite = true
				}
				everWritten[k] = true
				if e.t.Cond != "" {
					sawCond = true
				}
			}
		}
		for k := range state {
			delete(state, k)
		}
		for k, v := range trial {
			state[k] = v
		}
		if len(eff) > 0 {
			groups = append(groups, eff)
		}
		return false, nil
	}

	split := len(c.Steps)
	if c.Horizon {
		split = c.Split
		if split < 0 {
			split = 0
		}
		if split > len(c.Steps) {
			split = len(c.Steps)
		}
	}
	for _, st := range c.Steps[:split] {
		if stop, f := runStep(st); stop || f != nil {
			return f
		}
	}
	classes := []string{"backend:" + c.Backend}
	if c.Horizon {
		time.Sleep(horizonGap)
		for _, st := range c.Steps[split:] {
			if stop, f := runStep(st); stop || f != nil {
				return f
			}
		}
		before := time.Now()
		got, _, err := ds.ReadChanges(ctx, store, storage.ReadChangesFilter{ObjectType: c.Type, HorizonOffset: horizonOffset}, storage.ReadChangesOptions{Pagination: storage.PaginationOptions{PageSize: 100}})
		after := time.Now()
		if err != nil && !errors.Is(err, storage.ErrNotFound) {
			return fw.Failf(sg("horizon-error"), "datastore ReadChanges with HorizonOffset: %v", err)
		}
		all, err := dsChanges(ds, store, storage.ReadChangesFilter{ObjectType: c.Type}, false, 100)
		if err != nil {
			return fw.Failf(sg("readchanges-error"), "datastore ReadChanges: %v", err)
		}
		returned := map[string]bool{}
		var gotE []entry
		for _, ch := range got {
			e := toEntry(ch)
			gotE = append(gotE, e)
			returned[e.id()] = true
		}
		known := map[string]bool{}
		nWithheld, nReturned := 0, 0
		for _, e := range all {
			known[e.id()] = true
			mustReturn := !e.ts.After(before.Add(-horizonOffset - horizonEps))
			mustWithhold := e.ts.After(after.Add(-horizonOffset + horizonEps))
			switch {
			case mustWithhold && returned[e.id()]:
				return fw.Failf(sg("horizon-too-new-returned"), "horizon offset %v, call window [%s, %s]: entry %s is newer than the horizon but was returned\nreturned: %v\nall: %v",
					horizonOffset, before.UTC().Format("15:04:05.000000"), after.UTC().Format("15:04:05.000000"), e, entryStrings(gotE), entryStrings(all))
			case mustReturn && !returned[e.id()]:
				return fw.Failf(sg("horizon-old-withheld"), "horizon offset %v, call window [%s, %s]: entry %s is older than the horizon but was withheld\nreturned: %v\nall: %v",
					horizonOffset, before.UTC().Format("15:04:05.000000"), after.UTC().Format("15:04:05.000000"), e, entryStrings(gotE), entryStrings(all))
			}
			if mustWithhold {
				nWithheld++
			}
			if mustReturn {
				nReturned++
			}
		}
		for _, e := range gotE {
			if !known[e.id()] {
				return fw.Failf(sg("horizon-unknown-entry"), "ReadChanges with a horizon returned %s, which the log without horizon does not contain: %v", e, entryStrings(all))
			}
		}
		classes = append(classes, "horizon")
		if nWithheld > 0 && nReturned > 0 {
			classes = append(classes, "horizon:some-withheld-some-returned")
		} else if nWithheld > 0 {
			classes = append(classes, "horizon:all-withheld")
		}
	}

	// --- expectation, filtered by type
	var exp [][]effOp
	nExp := 0
	for _, g := range groups {
		var fg []effOp
		for _, e := range g {
			if c.Type == "" || objectType(e.t.Object) == c.Type {
				fg = append(fg, e)
			}
		}
		if len(fg) > 0 {
			exp = append(exp, fg)
			nExp += len(fg)
		}
	}
	describe := func() string {
		var sb strings.Builder
		for i, g := range exp {
			fmt.Fprintf(&sb, "  call %d:", i)
			for _, e := range g {
				op := "WRITE"
				if e.del {
					op = "DELETE"
				}
				fmt.Fprintf(&sb, " %s %s;", op, e.t)
			}
			sb.WriteString("\n")
		}
		return sb.String()
	}

	asc, err := serverChanges(s, store, c.Type, size)
	if err != nil {
		return fw.Failf(sg("readchanges-error"), "Server.ReadChanges(type=%q, page size %d): %v", c.Type, size, err)
	}
	// 1. one entry per effective operation
	if len(asc) != nExp {
		kind := "entry-missing"
		if len(asc) > nExp {
			kind = "entry-extra"
		}
		return fw.Failf(sg(kind), "type=%q: %d change entries for %d effective operations\nexpected (per call):\n%sgot: %v", c.Type, len(asc), nExp, describe(), entryStrings(asc))
	}
	// 2. call by call, each effective op exactly once with its content
	pos := 0
	for gi, g := range exp {
		used := make([]bool, len(g))
		for k := 0; k < len(g); k++ {
			e := asc[pos+k]
			found := false
			for j, op := range g {
				if used[j] || op.del != e.del || e.raw != "" || op.t.Key() != e.t.Key() {
					continue
				}
				if !op.del && !sameTuple(op.t, e.t) {
					continue
				}
				used[j], found = true, true
				break
			}
			if !found {
				kind := "entry-mismatch"
				for _, op := range g {
					if op.t.Key() == e.t.Key() && op.del != e.del {
						kind = "entry-wrong-operation"
					} else if op.t.Key() == e.t.Key() && op.del == e.del && !op.del {
						kind = "entry-wrong-condition"
					}
				}
				return fw.Failf(sg(kind), "type=%q: entry %d (%s) does not match any remaining operation of call %d\nexpected (per call):\n%sgot: %v", c.Type, pos+k, e, gi, describe(), entryStrings(asc))
			}
		}
		pos += len(g)
	}
	// 3. replay == Read
	replay := map[string]m.Tuple{}
	for _, e := range asc {
		if e.del {
			delete(replay, e.t.Key())
		} else {
			replay[e.t.Key()] = e.t
		}
	}
	current, err := readAll(s, store)
	if err != nil {
		return fw.Failf(sg("read-error"), "Server.Read: %v", err)
	}
	for k := range current {
		if c.Type != "" && objectType(current[k].Object) != c.Type {
			delete(current, k)
		}
	}
	if !reflect.DeepEqual(stateStrings(replay), stateStrings(current)) {
		return fw.Failf(sg("replay-differs-from-read"), "type=%q: replaying the %d entries gives %v\nbut Read returns %v\nentries: %v", c.Type, len(asc), stateStrings(replay), stateStrings(current), entryStrings(asc))
	}
	// 4. descending == reverse(ascending), at the datastore
	f := storage.ReadChangesFilter{ObjectType: c.Type}
	dsAsc, err := dsChanges(ds, store, f, false, size)
	if err != nil {
		return fw.Failf(sg("readchanges-error"), "datastore ReadChanges asc: %v", err)
	}
	dsDesc, err := dsChanges(ds, store, f, true, size)
	if err != nil {
		return fw.Failf(sg("readchanges-error"), "datastore ReadChanges desc: %v", err)
	}
	ids := func(es []entry) []string {
		out := make([]string, len(es))
		for i, e := range es {
			out[i] = e.id()
		}
		return out
	}
	if !reflect.DeepEqual(ids(dsAsc), ids(asc)) {
		return fw.Failf(sg("server-differs-from-datastore"), "type=%q page size %d: Server.ReadChanges %v\ndatastore ascending %v", c.Type, size, entryStrings(asc), entryStrings(dsAsc))
	}
	rev := append([]entry(nil), dsDesc...)
	for i, j := 0, len(rev)-1; i < j; i, j = i+1, j-1 {
		rev[i], rev[j] = rev[j], rev[i]
	}
	if !reflect.DeepEqual(ids(rev), ids(dsAsc)) {
		return fw.Failf(sg("desc-not-reverse-of-asc"), "type=%q page size %d: ascending %v\ndescending %v", c.Type, size, entryStrings(dsAsc), entryStrings(dsDesc))
	}

	// NT: >= 1 delete of a previously written tuple and >= 1 re-write of a deleted one.
	nt := sawDelete && sawRewrite
	if sawDelete {
		classes = append(classes, "delete-of-written")
	}
	if sawRewrite {
		classes = append(classes, "rewrite-of-deleted")
	}
	if sawIgnoredDup {
		classes = append(classes, "ignored-duplicate-write")
	}
	if sawIgnoredMissing {
		classes = append(classes, "ignored-missing-delete")
	}
	if sawCond {
		classes = append(classes, "conditioned-write")
	}
	if sawRejected {
		classes = append(classes, "rejected-call")
	}
	if c.Type != "" {
		classes = append(classes, "type-filter")
	} else {
		classes = append(classes, "no-type-filter")
	}
	if nExp > size {
		classes = append(classes, "pages>=2")
	}
	for _, g := range groups {
		if len(g) > 1 {
			classes = append(classes, "multi-op-call")
			break
		}
	}
	var sample any
	if nt {
		sample = map[string]any{"backend": c.Backend, "type": c.Type, "page_size": size, "calls": len(c.Steps), "entries": nExp, "log": entryStrings(asc)}
	}
	env.Rec.Case(c, nt, sample, classes...)
	return nil
}

// ---------------------------------------------------------------------------
// generator: simulates the store so that deletes, re-writes and ignored no-ops
// really happen.

func genCase(t *rapid.T) Case {
	c := Case{Backend: rapid.SampledFrom([]string{"memory", "sqlite"}).Draw(t, "backend")}
	maxSteps := 12
	if fw.TierIsThorough() {
		maxSteps = 24
	}
	nSteps := rapid.IntRange(1, maxSteps).Draw(t, "nSteps")
	state := map[string]m.Tuple{}
	var gone []m.Tuple // deleted at some point
	keysOf := func() []string {
		ks := make([]string, 0, len(state))
		for k := range state {
			ks = append(ks, k)
		}
		sort.Strings(ks)
		return ks
	}
	for i := 0; i < nSteps; i++ {
		var st Step
		used := map[string]bool{}
		nOps := rapid.IntRange(1, 3).Draw(t, "nOps")
		noopDup, noopMissing := false, false
		for j := 0; j < nOps; j++ {
			kind := rapid.IntRange(0, 99).Draw(t, "opKind")
			ks := keysOf()
			switch {
			case kind < 25 && len(ks) > 0: // delete a present tuple
				k := rapid.SampledFrom(ks).Draw(t, "delKey")
				if !used[k] {
					used[k] = true
					st.Deletes = append(st.Deletes, state[k])
				}
			case kind < 42 && len(gone) > 0: // write a tuple again that was deleted (possibly with another condition)
				tu := rapid.SampledFrom(gone).Draw(t, "rewrite")
				if _, has := state[tu.Key()]; !has && !used[tu.Key()] {
					used[tu.Key()] = true
					st.Writes = append(st.Writes, tu)
				}
			case kind < 50 && len(ks) > 0: // write a present tuple (no-op under on_duplicate=ignore)
				k := rapid.SampledFrom(ks).Draw(t, "dupKey")
				if !used[k] {
					used[k] = true
					tu := state[k]
					if rapid.IntRange(0, 5).Draw(t, "otherCond") == 0 && tu.Cond == "" && strings.HasPrefix(tu.User, "user:") && tu.User != "user:*" && strings.HasPrefix(tu.Object, "doc:") {
						tu.Cond = "c1" // conflicting duplicate: must be rejected even with ignore
					}
					st.Writes = append(st.Writes, tu)
					noopDup = true
				}
			case kind < 57: // delete an absent tuple (no-op under on_missing=ignore)
				tu := genTuple(t)
				if _, has := state[tu.Key()]; !has && !used[tu.Key()] {
					used[tu.Key()] = true
					st.Deletes = append(st.Deletes, tu)
					noopMissing = true
				}
			default: // write a new tuple
				tu := genTuple(t)
				if _, has := state[tu.Key()]; !has && !used[tu.Key()] {
					used[tu.Key()] = true
					st.Writes = append(st.Writes, tu)
				}
			}
		}
		if len(st.Writes)+len(st.Deletes) == 0 {
			continue
		}
		opt := func(noop bool, label string) string {
			r := rapid.IntRange(0, 9).Draw(t, label)
			switch {
			case noop && r < 8:
				return "ignore"
			case r < 5:
				return ""
			case r < 7:
				return "error"
			}
			return "ignore"
		}
		st.OnDuplicate = opt(noopDup, "onDuplicate")
		st.OnMissing = opt(noopMissing, "onMissing")
		c.Steps = append(c.Steps, st)
		trial := map[string]m.Tuple{}
		for k, v := range state {
			trial[k] = v
		}
		if eff, ok := applyStep(trial, st); ok {
			for _, e := range eff {
				if e.del {
					gone = append(gone, state[e.t.Key()])
				}
			}
			state = trial
		}
	}
	c.Type = rapid.SampledFrom([]string{"", "", "", "doc", "doc", "group", "folder", "user"}).Draw(t, "type")
	c.PageSize = rapid.SampledFrom([]int{1, 1, 2, 3, 5, 50, 100}).Draw(t, "pageSize")
	// the horizon part sleeps: keep it to a few percent of the cases (rapid
	// favours the ends of a range, so an inner value is used as the trigger)
	horizonOneIn := 40
	if fw.TierIsThorough() {
		horizonOneIn = 80
	}
	if rapid.IntRange(0, horizonOneIn-1).Draw(t, "horizon") == 7 {
		c.Horizon = true
		c.Split = rapid.IntRange(0, len(c.Steps)).Draw(t, "split")
	}
	return c
}

func TestC15(t *testing.T) { fw.Run(t, "C15", genCase, checkC15) }
