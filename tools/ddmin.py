#!/usr/bin/env python3
"""Greedy minimiser for replay files: repeatedly removes list elements / optional
keys of the case while the replay still fails (same signature).

  tools/ddmin.py <ID> <replay.json> [--pkg props] [--out min.json]
"""
import argparse, copy, json, os, re, subprocess, sys, tempfile

ROOT = os.path.dirname(os.path.dirname(os.path.abspath(__file__)))
sys.path.insert(0, ROOT)
from checks_config import CHECKS


REPEAT = 1


def run(binp, tests, path):
    """flaky (schedule-dependent) failures: the candidate fails if any of REPEAT runs fails"""
    res = None
    for _ in range(REPEAT):
        res = run1(binp, tests, path)
        if res and res.get("fail"):
            return res
    return res


def run1(binp, tests, path):
    env = dict(os.environ, VERIF_REPLAY=path, VERIF_ROOT=ROOT)
    try:
        p = subprocess.run([binp, "-test.run", f"^({tests})$", "-test.v", "-test.timeout", "200s"], env=env, cwd=tempfile.gettempdir(),
                           stdout=subprocess.PIPE, stderr=subprocess.STDOUT, text=True, timeout=260)
    except subprocess.TimeoutExpired:
        return None
    res = None
    for line in p.stdout.splitlines():
        m = re.match(r"\s*REPLAY-RESULT (\{.*\})", line)
        if m:
            r = json.loads(m.group(1))
            if res is None or r.get("fail"):
                res = r
    return res


def paths(v, pre=()):
    """yield paths of removable things: list elements and dict keys (not at top level 'model' structure names)."""
    if isinstance(v, list):
        for i in range(len(v) - 1, -1, -1):
            yield pre + (i,)
            yield from paths(v[i], pre + (i,))
    elif isinstance(v, dict):
        for k in sorted(v.keys()):
            if k in ("ctx", "contextual", "cond", "left", "bits"):
                yield pre + (k,)
            yield from paths(v[k], pre + (k,))


def remove(doc, path):
    d = copy.deepcopy(doc)
    cur = d
    for p in path[:-1]:
        cur = cur[p]
    del cur[path[-1]]
    return d


def main():
    ap = argparse.ArgumentParser()
    ap.add_argument("id")
    ap.add_argument("replay")
    ap.add_argument("--out")
    ap.add_argument("--match", default="", help="substring the failure message must keep")
    ap.add_argument("--repeat", type=int, default=1, help="runs per candidate (flaky failures)")
    a = ap.parse_args()
    global REPEAT
    REPEAT = a.repeat
    cfg = CHECKS[a.id]
    pkg = cfg.get("pkg", "props")
    binp = os.path.join(ROOT, ".build", pkg + ".test")
    tests = "|".join(sorted({r["test"] for r in cfg["runs"]}))
    doc = json.load(open(a.replay))
    tmp = os.path.join(tempfile.gettempdir(), f"ddmin-{os.getpid()}.json")
    json.dump(doc, open(tmp, "w"))
    base = run(binp, tests, tmp)
    if not base or not base.get("fail"):
        print("replay does not fail:", base)
        return 1
    sig = base.get("signature", "")
    print("baseline fails, signature:", repr(sig))
    changed = True
    rounds = 0
    while changed and rounds < 300:
        changed = False
        rounds += 1
        for p in list(paths(doc["case"])):
            try:
                cand = copy.deepcopy(doc)
                cand["case"] = remove(doc["case"], p)
            except (KeyError, IndexError, TypeError):
                continue
            json.dump(cand, open(tmp, "w"))
            r = run(binp, tests, tmp)
            if r and r.get("fail") and r.get("signature", "") == sig and a.match in r.get("msg", ""):
                doc = cand
                changed = True
                print("removed", p)
                break
    out = a.out or a.replay.replace(".json", ".min.json")
    doc["msg"] = ""
    json.dump(doc, open(out, "w"), indent=1)
    print("written", out)
    os.unlink(tmp)
    return 0


if __name__ == "__main__":
    sys.exit(main())
