#!/usr/bin/env python3
"""Sensitivity run: applies small textual mutations to a scratch worktree of /repo (never to
/repo itself) and runs the quick tier of the named checks against it with `./check --repo`.

  tools/mutants.py [name-substring ...]      results appended to .build/mutants.log
"""
import os, subprocess, sys, time

ROOT = os.path.dirname(os.path.dirname(os.path.abspath(__file__)))
WT = "/tmp/verif-mutants-wt"

# (name, checks expected to catch it, file, old, new)
MUTANTS = [
    ("intersection-returns-true-on-first-true", ["C01"], "internal/graph/check.go",
     "			if outcome.resp.GetResolutionMetadata().CycleDetected || !outcome.resp.Allowed {\n				// Short-circuit failure.",
     "			if outcome.resp.Allowed {\n				return outcome.resp, nil\n			}\n			if outcome.resp.GetResolutionMetadata().CycleDetected || !outcome.resp.Allowed {\n				// Short-circuit failure."),
    ("checkTTU-drops-invalid-tuple-filter", ["C01", "C30"], "internal/graph/check.go",
     "				validation.FilterInvalidTuples(typesys),\n			),\n			checkutil.BuildTupleKeyConditionFilter(ctx, req.GetContext(), typesys),\n		)\n		defer filteredIter.Stop()\n\n		resolver := c.defaultTTU",
     "				func(*openfgav1.TupleKey) bool { return true },\n			),\n			checkutil.BuildTupleKeyConditionFilter(ctx, req.GetContext(), typesys),\n		)\n		defer filteredIter.Stop()\n\n		resolver := c.defaultTTU"),
    ("direct-user-tuple-ignores-condition-error", ["C01", "C25"], "internal/graph/check.go",
     "			conditionMet, err := tupleKeyConditionFilter(tupleKey)\n			if err != nil {\n				telemetry.TraceError(span, err)\n				return nil, err\n			}",
     "			conditionMet, err := tupleKeyConditionFilter(tupleKey)\n			if err != nil {\n				telemetry.TraceError(span, err)\n				return response, nil\n			}"),
    ("exclusion-ignores-subtract", ["C01", "C02"], "internal/graph/check.go",
     "			if res.resp.GetCycleDetected() || res.resp.GetAllowed() {\n				return &ResolveCheckResponse{Allowed: false,",
     "			if res.resp.GetCycleDetected() && res.resp.GetAllowed() {\n				return &ResolveCheckResponse{Allowed: false,"),
    ("trySendObject-off-by-one", ["C05"], "pkg/server/commands/list_objects.go",
     "if maxResults > 0 && uint32(len(res.Objects)) >= maxResults {", "if maxResults > 0 && uint32(len(res.Objects)) > maxResults {"),
    ("cached-resolver-caches-cycle-responses", ["C08"], "internal/graph/cached_resolver.go", None, None),
    ("check-cache-key-drops-user", ["C08", "C24", "C16"], "pkg/storage/cache.go", None, None),
    ("cached-resolver-ignores-consistency", ["C10"], "internal/graph/cached_resolver.go",
     "tryCache := req.Consistency != openfgav1.ConsistencyPreference_HIGHER_CONSISTENCY", "tryCache := true"),
    ("cycle-join-omits-initial-inc", ["C21"], "internal/listobjects/pipeline/internal/worker/cycle.go",
     "	m.reporter.Inc()\n	return &m", "	return &m"),
    ("cycle-follower-cleans-up-without-sleep", ["C21"], "internal/listobjects/pipeline/internal/worker/basic.go",
     "		w.Membership.Sleep(context.Background())\n", "		_ = context.Background\n"),
    ("statuspool-dec-closes-without-latch-on-le-zero", ["C21"], "internal/listobjects/pipeline/internal/track/reporting.go",
     "	if value == 0 {\n", "	if value <= 1 {\n"),
    ("checkTTU-missing-iter-stop", ["C20"], "internal/graph/check.go",
     "		defer filteredIter.Stop()\n\n		resolver := c.defaultTTU", "		_ = filteredIter\n\n		resolver := c.defaultTTU"),
    ("invariant-key-drops-store", ["C16", "C24"], "pkg/storage/cache.go", None, None),
    ("controller-isinvalid-after", ["C11"], "pkg/storage/storagewrappers/cached_datastore.go", None, None),
]


def sh(cmd, **kw):
    return subprocess.run(cmd, shell=True, stdout=subprocess.PIPE, stderr=subprocess.STDOUT, text=True, **kw)


def main():
    want = sys.argv[1:]
    sh(f"git -C /repo worktree remove --force {WT}")
    r = sh(f"git -C /repo worktree add -q {WT} HEAD")
    if r.returncode != 0:
        print(r.stdout)
        return 1
    log = open(os.path.join(ROOT, ".build", "mutants.log"), "a")
    try:
        for name, checks, path, old, new in MUTANTS:
            if want and not any(w in name for w in want):
                continue
            if old is None:
                continue
            fp = os.path.join(WT, path)
            src = open(fp).read()
            if old not in src:
                print(f"{name}: PATTERN NOT FOUND in {path}")
                continue
            open(fp, "w").write(src.replace(old, new, 1))
            b = sh("go build ./... 2>&1 | tail -5", cwd=WT, env=dict(os.environ, GOFLAGS="-mod=mod", GOPROXY="off"))
            if b.stdout.strip():
                print(f"{name}: DOES NOT COMPILE\n{b.stdout}")
                open(fp, "w").write(src)
                continue
            for cid in checks:
                t0 = time.time()
                r = sh(f"./check {cid} --tier quick --repo {WT}", cwd=ROOT)
                verdict = "CAUGHT" if r.returncode == 1 else ("inconclusive" if r.returncode == 2 else "MISSED")
                line = f"{name:55s} {cid} {verdict} ({time.time() - t0:.0f}s)"
                print(line)
                log.write(line + "\n")
                log.flush()
            open(fp, "w").write(src)
    finally:
        sh(f"git -C /repo worktree remove --force {WT}")
    return 0


if __name__ == "__main__":
    sys.exit(main())
