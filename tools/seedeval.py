#!/usr/bin/env python3
"""Confirms a seeded change delivered by a sub-agent and runs our checks against it.

  tools/seedeval.py /tmp/seed/out-NN/Cxx [extra check ids ...]

Steps (all in a scratch worktree of /repo under /tmp, removed afterwards):
  1. patch.diff applies to /repo HEAD; the tree builds;
  2. the demonstration passes WITHOUT the change and fails WITH it;
  3. the unedited tests of the touched packages still pass with the change;
  4. ./check <id> --tier quick --repo <worktree> for the property (and the extra ids).
The result is stored under /verif/seeded/<id>-<n>/ (patch.diff, demo_test.go, meta.json).
"""
import json, os, re, shutil, subprocess, sys, time

ROOT = os.path.dirname(os.path.dirname(os.path.abspath(__file__)))
ENV = dict(os.environ, GOFLAGS="-mod=mod", GOPROXY="off")
ENV.pop("GOSUMDB", None)
ENV.pop("GOTOOLCHAIN", None)


def sh(cmd, cwd=None, timeout=3600):
    p = subprocess.run(cmd, shell=True, cwd=cwd, env=ENV, stdout=subprocess.PIPE, stderr=subprocess.STDOUT, text=True, timeout=timeout)
    return p.returncode, p.stdout


def main():
    src = os.path.abspath(sys.argv[1])
    extra = sys.argv[2:]
    meta = json.load(open(os.path.join(src, "meta.json")))
    pid = meta["property"]
    wt = f"/tmp/verif-seedeval-{pid}-{os.getpid()}"
    sh(f"git -C /repo worktree add -q {wt} HEAD")
    out = {"property": pid, "summary": meta.get("summary"), "needs": meta.get("needs"), "source": "independent sub-agent given only the property text"}
    try:
        pkgdir = meta["demo_pkg_dir"].strip("./")
        demo = os.path.join(src, "demo_test.go")
        demo_dst = os.path.join(wt, pkgdir, f"verif_seed_{pid.lower()}_test.go")
        shutil.copy(demo, demo_dst)
        run = re.search(r"-run\s+(\S+)", meta.get("demo_cmd", ""))
        runpat = run.group(1) if run else "TestVerifSeed"
        tags = re.search(r"-tags[ =](\S+)", meta.get("demo_cmd", ""))
        demo_cmd = f"go test {'-tags ' + tags.group(1) if tags else ''} -count=1 -run '{runpat}' ./{pkgdir}/"
        rc0, o0 = sh(demo_cmd, cwd=wt)
        out["demo_passes_without_change"] = rc0 == 0
        # tests of the packages the patch touches that fail WITHOUT the change (docker-only tests, load-sensitive ones)
        touched = sorted({"./" + os.path.dirname(l[6:].strip()) + "/" for l in open(os.path.join(src, "patch.diff")) if l.startswith("+++ b/") and l.strip().endswith(".go")})
        os.rename(demo_dst, demo_dst + ".off")
        _rcb0, ob0 = sh("go test -count=1 " + " ".join(touched) + " 2>&1 | grep -E '^--- FAIL' ", cwd=wt)
        os.rename(demo_dst + ".off", demo_dst)
        base_failing = {l.split()[2] for l in ob0.splitlines() if l.startswith("--- FAIL")}
        rc, o = sh(f"git apply {src}/patch.diff", cwd=wt)
        out["patch_applies"] = rc == 0
        if rc != 0:
            out["error"] = o[-500:]
            raise SystemExit
        rcb, ob = sh("go build ./... 2>&1 | tail -5", cwd=wt)
        out["builds"] = ob.strip() == ""
        rc1, o1 = sh(demo_cmd, cwd=wt)
        out["demo_fails_with_change"] = rc1 != 0
        out["demo_output_tail"] = o1[-600:]
        # unedited tests of the touched packages
        rcd, files = sh("git diff --name-only", cwd=wt)
        pkgs = sorted({"./" + os.path.dirname(f) + "/" for f in files.split() if f.endswith(".go")})
        os.remove(demo_dst)
        rct, ot = sh("go test -count=1 " + " ".join(pkgs) + " 2>&1 | tail -15", cwd=wt)
        rct2, ot2 = sh("go test -count=1 " + " ".join(pkgs) + " 2>&1 | grep -E '^--- FAIL' ", cwd=wt)
        failing = sorted({l.split()[2] for l in ot2.splitlines() if l.startswith("--- FAIL")} - base_failing)
        out["touched_packages"] = pkgs
        out["touched_package_tests_pass"] = not failing
        out["tests_failing_without_the_change_too"] = sorted(base_failing)[:10]
        if failing:
            out["touched_package_test_failures"] = failing[:6]
        results = {}
        for cid in [pid] + extra:
            t0 = time.time()
            rcc, oc = sh(f"./check {cid} --tier quick --repo {wt}", cwd=ROOT)
            verdict = {0: "MISSED", 1: "CAUGHT", 2: "inconclusive"}.get(rcc, f"rc={rcc}")
            vline = [l for l in oc.splitlines() if l.startswith("VIOLATION") or l.startswith("OK ") or l.startswith("INCONCLUSIVE")]
            msg = [l for l in oc.splitlines() if "violated [" in l]
            results[cid] = {"verdict": verdict, "seconds": round(time.time() - t0), "line": (vline or [""])[0][:200], "failure": (msg or [""])[-1][:400]}
            # a catch only counts if the saved case holds on the unchanged tree (replayed three times there)
            mrep = re.search(r"VIOLATION property=\S+ replay=(\S+)", oc)
            if rcc == 1 and mrep and os.path.exists(mrep.group(1)) and not os.path.basename(mrep.group(1)).startswith("fuzz-"):
                # ... or fails there only with the signature of a recorded finding, different from the catch's own
                try:
                    caught_sig = json.load(open(mrep.group(1))).get("signature") or ""
                except Exception:
                    caught_sig = ""
                known = {f["signature"] for f in json.load(open(os.path.join(ROOT, "known_findings.json")))["findings"] if f.get("status") == "open"}
                fails = 0
                for _ in range(3):
                    rcr, orr = sh(f"./check {cid} --replay {mrep.group(1)}", cwd=ROOT)
                    sigs = set(re.findall(r'"signature":"([^"]*)"', orr))
                    if rcr == 1 and not (sigs and sigs <= known and caught_sig not in sigs):
                        fails += 1
                results[cid]["replay_on_unchanged_tree"] = f"{3 - fails}/3 hold (failures with the signature of a recorded finding other than the catch's do not count)"
                if fails:
                    results[cid]["verdict"] = "NOT-CONFIRMED (the saved case also fails on the unchanged tree)"
            print(pid, cid, verdict, results[cid]["failure"][:160])
        out["checks"] = results
    except SystemExit:
        pass
    finally:
        sh(f"git -C /repo worktree remove --force {wt}")
    n = 1
    while os.path.exists(os.path.join(ROOT, "seeded", f"{pid}-{n}")):
        n += 1
    dst = os.path.join(ROOT, "seeded", f"{pid}-{n}")
    os.makedirs(dst)
    shutil.copy(os.path.join(src, "patch.diff"), dst)
    shutil.copy(os.path.join(src, "demo_test.go"), os.path.join(dst, "demo_test.go"))
    meta_out = dict(meta)
    meta_out["verification"] = out
    if os.environ.get("SEED_NOTE"):
        meta_out["note"] = os.environ["SEED_NOTE"]
    json.dump(meta_out, open(os.path.join(dst, "meta.json"), "w"), indent=1)
    print(json.dumps({k: v for k, v in out.items() if k not in ("demo_output_tail",)}, indent=1)[:1500])


if __name__ == "__main__":
    main()
