#!/bin/bash
# runs the thorough tier of the given checks sequentially; one status line each
cd "$(dirname "$0")/.."
for id in "$@"; do
  s=$(date +%s)
  out=$(./check $id --tier thorough 2>&1); rc=$?
  e=$(( $(date +%s) - s ))
  echo "== $id rc=$rc ${e}s :: $(echo "$out" | grep -E '^(OK|VIOLATION|INCONCLUSIVE|BUILD-FAILED|note)' | head -3 | cut -c1-300 | tr '\n' ' ')"
  if [ $rc -ne 0 ]; then echo "$out" | grep -v "rapid\] draw" | tail -25 | cut -c1-500; fi
done
