#!/bin/bash
# runs the quick tier of every check sequentially; prints one status line each
cd /verif
for id in "$@"; do
  s=$(date +%s)
  out=$(./check $id --tier quick 2>&1); rc=$?
  e=$(( $(date +%s) - s ))
  echo "== $id rc=$rc ${e}s :: $(echo "$out" | grep -E '^(OK|VIOLATION|INCONCLUSIVE|BUILD-FAILED)' | head -2 | cut -c1-200)"
  echo "$out" | grep -c KNOWN-FINDING | sed 's/^/   known-finding lines: /'
  if [ $rc -ne 0 ]; then echo "$out" | grep -v "rapid\] draw" | tail -15 | cut -c1-400; fi
done
