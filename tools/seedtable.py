#!/usr/bin/env python3
"""Prints the markdown table of DESIGN.md §6.5 from seeded/*/meta.json."""
import glob, json, os
ROOT = os.path.dirname(os.path.dirname(os.path.abspath(__file__)))
print("| seeded change | what it breaks (one line) | needs | result of `./check <id> --tier quick` | history |")
print("|---|---|---|---|---|")
for d in sorted(glob.glob(os.path.join(ROOT, "seeded", "*", "meta.json"))):
    m = json.load(open(d))
    v = m.get("verification", {})
    name = os.path.basename(os.path.dirname(d))
    summ = (m.get("summary") or "").replace("|", "/").replace("\n", " ")
    needs = (m.get("needs") or "").replace("|", "/").replace("\n", " ")
    cut = lambda s, n: s if len(s) <= n else s[:n].rsplit(" ", 1)[0] + " …"
    res = "; ".join(f"{cid}: **{c['verdict']}** ({c['seconds']} s)" for cid, c in (v.get("checks") or {}).items())
    ok = v.get("demo_passes_without_change") and v.get("demo_fails_with_change") and v.get("touched_package_tests_pass")
    res += "" if ok else " (confirmation incomplete: see meta.json)"
    print(f"| {name} | {cut(summ, 230)} | {cut(needs, 200)} | {res} | {m.get('note', 'caught by the check as first built')} |")
