#!/usr/bin/env python3
"""Re-resolves the commit hash of every 'fixed:' entry of known_findings.json by the
subject prefix stored in fixed_subjects (kept next to the entry)."""
import json, subprocess
p = '/verif/known_findings.json'
d = json.load(open(p))
log = subprocess.check_output(['git', '-C', '/repo', 'log', '--format=%h %s'], text=True).splitlines()
subs = d.setdefault('fixed_subjects', {})
out = []
for e in d['fixed']:
    parts = e.split(' ', 3)  # fixed: property=X hash rest
    prop, h, rest = parts[1], parts[2], parts[3]
    key = prop + '|' + rest[:40]
    subj = subs.get(key)
    if subj is None:
        for l in log:
            if l.startswith(h + ' '):
                subj = l.split(' ', 1)[1]
        subs[key] = subj
    nh = h
    for l in log:
        if subj and l.split(' ', 1)[1] == subj:
            nh = l.split()[0]
    out.append(f"fixed: {prop} {nh} {rest}")
d['fixed'] = out
json.dump(d, open(p, 'w'), indent=1)
print('\n'.join(x[:100] for x in out))
