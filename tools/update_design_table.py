#!/usr/bin/env python3
"""Rewrites the seeded-change table of DESIGN.md (between the seedtable markers) from seeded/*/meta.json."""
import os, subprocess
ROOT = os.path.dirname(os.path.dirname(os.path.abspath(__file__)))
p = os.path.join(ROOT, "DESIGN.md")
s = open(p).read()
b, e = "<!-- seedtable:begin -->", "<!-- seedtable:end -->"
i, j = s.index(b) + len(b), s.index(e)
table = subprocess.check_output(["python3", os.path.join(ROOT, "tools", "seedtable.py")], text=True)
open(p, "w").write(s[:i] + "\n" + table + s[j:])
